/-! Spike: length-prefix unframing is chunk-invariant and inverts framing (C15). Bytes are `Nat`s
    (the prefix digits are < 256 by construction; payload bytes are arbitrary). -/

def toBytesLE : Nat → Nat → List Nat
  | 0, _ => []
  | p+1, n => (n % 256) :: toBytesLE p (n / 256)

def fromBytesLE : List Nat → Nat
  | [] => 0
  | b :: bs => b + 256 * fromBytesLE bs

theorem toBytesLE_length (p n : Nat) : (toBytesLE p n).length = p := by
  induction p generalizing n with
  | zero => rfl
  | succ p ih => simp [toBytesLE, ih]

theorem from_to_LE : ∀ (p n : Nat), n < 256 ^ p → fromBytesLE (toBytesLE p n) = n := by
  intro p
  induction p with
  | zero => intro n h; simp at h; simp [toBytesLE, fromBytesLE, h]
  | succ p ih =>
    intro n h
    have h2 : n / 256 < 256 ^ p := by
      rw [Nat.pow_succ] at h
      exact Nat.div_lt_of_lt_mul (by rw [Nat.mul_comm]; exact h)
    simp only [toBytesLE, fromBytesLE, ih _ h2]
    have := Nat.div_add_mod n 256
    omega

/-- byte order as a parameter: `enc`/`dec` are any pair with these two properties
    (little endian above; big endian is its reverse) -/
structure Prefix where
  p : Nat
  hp : 0 < p
  enc : Nat → List Nat
  dec : List Nat → Nat
  enc_len : ∀ n, (enc n).length = p
  dec_enc : ∀ n, n < 256 ^ p → dec (enc n) = n

def lePrefix (p : Nat) (hp : 0 < p) : Prefix :=
  ⟨p, hp, toBytesLE p, fromBytesLE, toBytesLE_length p, from_to_LE p⟩
def bePrefix (p : Nat) (hp : 0 < p) : Prefix :=
  ⟨p, hp, fun n => (toBytesLE p n).reverse, fun l => fromBytesLE l.reverse,
   fun n => by simp [toBytesLE_length], fun n h => by simp [from_to_LE p n h]⟩

def frame (P : Prefix) (item : List Nat) : List Nat := P.enc item.length ++ item

/-- the `while` loop of `length_prefix.unframe.on_next` on the buffer `acc + chunk`:
    returns the frames delivered and the bytes carried over -/
def parse (P : Prefix) (buf : List Nat) : List (List Nat) × List Nat :=
  if h : P.p ≤ buf.length then
    let size := P.dec (buf.take P.p)
    if h2 : size ≤ buf.length - P.p then
      let r := parse P (buf.drop (P.p + size))
      (((buf.drop P.p).take size) :: r.1, r.2)
    else ([], buf)
  else ([], buf)
termination_by buf.length
decreasing_by
  simp only [List.length_drop]
  have := P.hp
  omega

def feedAll (P : Prefix) : List Nat → List (List Nat) → List (List Nat) × List Nat
  | acc, [] => ([], acc)
  | acc, c :: cs =>
    let r := parse P (acc ++ c)
    let r2 := feedAll P r.2 cs
    (r.1 ++ r2.1, r2.2)

/-- incrementality: parsing `buf ++ more` = parse `buf`, then continue on (carry ++ more) -/
theorem parse_append (P : Prefix) : ∀ (n : Nat) (buf more : List Nat), buf.length = n →
    parse P (buf ++ more) =
      ((parse P buf).1 ++ (parse P ((parse P buf).2 ++ more)).1, (parse P ((parse P buf).2 ++ more)).2) := by
  intro n
  induction n using Nat.strongRecOn with
  | ind n ih =>
    intro buf more hn
    by_cases h : P.p ≤ buf.length
    · by_cases h2 : P.dec (buf.take P.p) ≤ buf.length - P.p
      · -- a complete frame at the head of buf: it is also complete in buf ++ more
        have hp := P.hp
        rw [parse.eq_1 P buf]
        simp only [h, h2, dite_true]
        have htake : (buf ++ more).take P.p = buf.take P.p := List.take_append_of_le_length h
        have hlen : P.p ≤ (buf ++ more).length := by simp; omega
        have h2' : P.dec ((buf ++ more).take P.p) ≤ (buf ++ more).length - P.p := by
          rw [htake]; simp; omega
        rw [parse.eq_1 P (buf ++ more)]
        simp only [hlen, h2', dite_true, htake]
        have hd : (buf ++ more).drop (P.p + P.dec (buf.take P.p)) =
            buf.drop (P.p + P.dec (buf.take P.p)) ++ more :=
          List.drop_append_of_le_length (by omega)
        rw [hd, ih (buf.drop (P.p + P.dec (buf.take P.p))).length (by simp; omega) _ more rfl]
        have hpay : ((buf ++ more).drop P.p).take (P.dec (buf.take P.p)) =
            (buf.drop P.p).take (P.dec (buf.take P.p)) := by
          rw [List.drop_append_of_le_length h]
          exact List.take_append_of_le_length (by simp; omega)
        have h2'' : P.dec (buf.take P.p) ≤ buf.length + more.length - P.p := by omega
        simp [hpay, h2'']
      · rw [parse.eq_1 P buf]; simp [h, h2]
    · rw [parse.eq_1 P buf]; simp [h]

theorem feedAll_eq_parse (P : Prefix) : ∀ (cs : List (List Nat)) (acc : List Nat),
    (parse P acc).1 = [] → (parse P acc).2 = acc →
    feedAll P acc cs = parse P (acc ++ cs.flatten) := by
  intro cs
  induction cs with
  | nil => intro acc h1 h2; simp [feedAll]; rw [Prod.ext_iff]; simp [h1, h2]
  | cons c cs ih =>
    intro acc h1 h2
    simp only [feedAll, List.flatten_cons]
    have hidem : ∀ b, (parse P (parse P b).2).1 = [] ∧ (parse P (parse P b).2).2 = (parse P b).2 := by
      intro b
      have := parse_append P b.length b [] rfl
      simp only [List.append_nil] at this
      have h := congrArg Prod.fst this
      have h' := congrArg Prod.snd this
      simp only at h h'
      exact ⟨by simpa using h, h'.symm⟩
    rw [ih _ (hidem _).1 (hidem _).2]
    rw [← List.append_assoc, parse_append P (acc ++ c).length (acc ++ c) cs.flatten rfl]

/-- parsing a well-formed framed stream followed by an incomplete frame -/
theorem parse_frames (P : Prefix) : ∀ (items : List (List Nat)) (tail : List Nat),
    (∀ it ∈ items, it.length < 256 ^ P.p) →
    (parse P tail).1 = [] → (parse P tail).2 = tail →
    parse P ((items.map (frame P)).flatten ++ tail) = (items, tail) := by
  intro items
  induction items with
  | nil => intro tail _ h1 h2; simp; rw [Prod.ext_iff]; exact ⟨h1, h2⟩
  | cons it items ih =>
    intro tail hlen h1 h2
    have hit := hlen it (by simp)
    have hp := P.hp
    simp only [List.map_cons, List.flatten_cons, frame, List.append_assoc]
    rw [parse.eq_1]
    have hl : P.p ≤ (P.enc it.length ++ (it ++ ((items.map (frame P)).flatten ++ tail))).length := by
      simp [P.enc_len]
    have htake : (P.enc it.length ++ (it ++ ((items.map (frame P)).flatten ++ tail))).take P.p =
        P.enc it.length := by
      rw [List.take_append_of_le_length (by simp [P.enc_len])]
      exact List.take_of_length_le (by simp [P.enc_len])
    simp only [hl, dite_true, htake, P.dec_enc _ hit]
    have h2' : it.length ≤ (P.enc it.length ++ (it ++ ((items.map (frame P)).flatten ++ tail))).length - P.p := by
      simp only [List.length_append, P.enc_len]; omega
    simp only [h2', dite_true]
    have hdrop : (P.enc it.length ++ (it ++ ((items.map (frame P)).flatten ++ tail))).drop (P.p + it.length) =
        (items.map (frame P)).flatten ++ tail := by
      rw [← List.append_assoc]
      have : (P.enc it.length ++ it).length = P.p + it.length := by simp [P.enc_len]
      rw [List.drop_append_of_le_length (by omega)]
      simp [List.drop_eq_nil_of_le (Nat.le_of_eq this)]
    have hpay : ((P.enc it.length ++ (it ++ ((items.map (frame P)).flatten ++ tail))).drop P.p).take it.length = it := by
      have : (P.enc it.length).length = P.p := P.enc_len _
      rw [List.drop_append_of_le_length (by omega), List.drop_eq_nil_of_le (by omega)]
      simp
    rw [hdrop, hpay, ih tail (fun i hi => hlen i (by simp [hi])) h1 h2]

/-- **C15, length prefix**: for every prefix size ≥ 1, either byte order, every list of items that fit,
    every incomplete trailing frame `tail`, and EVERY chunking `cs` of the framed stream:
    unframing delivers exactly the items and keeps exactly `tail` undelivered. -/
theorem lp_roundtrip (P : Prefix) (items : List (List Nat)) (tail : List Nat) (cs : List (List Nat))
    (hlen : ∀ it ∈ items, it.length < 256 ^ P.p)
    (htail : (parse P tail).1 = [] ∧ (parse P tail).2 = tail)
    (hcs : cs.flatten = (items.map (frame P)).flatten ++ tail) :
    feedAll P [] cs = (items, tail) := by
  have h0 : (parse P []).1 = [] ∧ (parse P []).2 = [] := by
    have hp := P.hp
    have hn : P.p ≠ 0 := by omega
    rw [parse.eq_1]; simp [hn]
  rw [feedAll_eq_parse P cs [] h0.1 h0.2, List.nil_append, hcs]
  exact parse_frames P items tail hlen htail.1 htail.2

#print axioms lp_roundtrip
#eval feedAll (lePrefix 2 (by decide)) [] [[3,0,7],[8,9,0],[0,1],[0,5]]

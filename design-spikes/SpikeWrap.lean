/-! Spike: the inductive step of `impl_eq_ref` for a splitter wrapped around an ARBITRARY inner mux
    operator `Q` that is only known (induction hypothesis) to equal the keyed reference lift of a
    local operator `L` on well-formed traces.  Splitter = `split` (inner idx = parent's idx). -/

abbrev Key := List Nat
def Key.idx (k : Key) : Nat := k.headD 0

inductive Ev (α : Type) where
  | create (k : Key) | next (k : Key) (v : α) | done (k : Key)

structure LocalOp (α β σ : Type) where
  init : σ
  next : σ → α → σ × List β
  fin  : σ → List β

def upd {κ : Type} [DecidableEq κ] {σ} (f : κ → Option σ) (k : κ) (v : Option σ) : κ → Option σ :=
  fun k' => if k' = k then v else f k'

def refStep {α β σ} (P : LocalOp α β σ) (st : Key → Option σ) : Ev α → (Key → Option σ) × List (Ev β)
  | .create k => (upd st k (some P.init), [.create k])
  | .next k v =>
    match st k with
    | some s => let r := P.next s v; (upd st k (some r.1), r.2.map (.next k))
    | none => (st, [])
  | .done k =>
    match st k with
    | some s => (upd st k none, (P.fin s).map (.next k) ++ [.done k])
    | none => (st, [.done k])

def runSteps {S E O} (step : S → E → S × List O) : S → List E → List (List O)
  | _, [] => []
  | s, e :: es => let r := step s e; r.2 :: runSteps step r.1 es

def finalState {S E O} (step : S → E → S × List O) : S → List E → S
  | s, [] => s
  | s, e :: es => finalState step (step s e).1 es

def wfStep {α} (live : List Key) : Ev α → Option (List Key)
  | .create k => if live.any (fun k' => k'.idx == k.idx) then none else some (k :: live)
  | .next k _ => if k ∈ live then some live else none
  | .done k => if k ∈ live then some (live.erase k) else none

def wfFrom {α} : List Key → List (Ev α) → Bool
  | _, [] => true
  | live, e :: es => match wfStep live e with | some l => wfFrom l es | none => false

/-! ### grouped runs -/

def runGroup {S E O} (step : S → E → S × List O) : S → List E → S × List O
  | s, [] => (s, [])
  | s, e :: es => let r := step s e; let r2 := runGroup step r.1 es; (r2.1, r.2 ++ r2.2)

def runGroups {S E O} (step : S → E → S × List O) : S → List (List E) → List (List O)
  | _, [] => []
  | s, g :: gs => let r := runGroup step s g; r.2 :: runGroups step r.1 gs

def regroup {O} : List Nat → List (List O) → List (List O)
  | [], _ => []
  | n :: ns, cs => (cs.take n).flatten :: regroup ns (cs.drop n)

theorem runSteps_append {S E O} (step : S → E → S × List O) :
    ∀ (a b : List E) (s : S),
      runSteps step s (a ++ b) = runSteps step s a ++ runSteps step (finalState step s a) b := by
  intro a
  induction a with
  | nil => intro b s; rfl
  | cons e a ih => intro b s; simp [runSteps, finalState, ih]

theorem runSteps_length {S E O} (step : S → E → S × List O) :
    ∀ (a : List E) (s : S), (runSteps step s a).length = a.length := by
  intro a; induction a with
  | nil => intro s; rfl
  | cons e a ih => intro s; simp [runSteps, ih]

theorem runGroup_eq {S E O} (step : S → E → S × List O) :
    ∀ (g : List E) (s : S),
      runGroup step s g = (finalState step s g, (runSteps step s g).flatten) := by
  intro g; induction g with
  | nil => intro s; rfl
  | cons e g ih => intro s; simp [runGroup, finalState, runSteps, ih]

theorem runGroups_regroup {S E O} (step : S → E → S × List O) :
    ∀ (gs : List (List E)) (s : S),
      runGroups step s gs = regroup (gs.map List.length) (runSteps step s gs.flatten) := by
  intro gs; induction gs with
  | nil => intro s; rfl
  | cons g gs ih =>
    intro s
    simp only [runGroups, List.map_cons, List.flatten_cons, regroup, runSteps_append, runGroup_eq]
    have hl := runSteps_length step g s
    rw [List.take_left' hl, List.drop_left' hl, ih]

/-- if two machines agree chunk-by-chunk on the flat trace, they agree on any grouping of it -/
theorem runGroups_congr {S S' E O} (step : S → E → S × List O) (step' : S' → E → S' × List O)
    (gs : List (List E)) (s : S) (s' : S')
    (h : runSteps step s gs.flatten = runSteps step' s' gs.flatten) :
    runGroups step s gs = runGroups step' s' gs := by
  rw [runGroups_regroup, runGroups_regroup, h]

/-! ### the splitter (`split_mux`), the generic inner operator, the wrap -/

structure MuxOp (α β : Type) where
  S : Type
  init : S
  step : S → Ev α → S × List (Ev β)

abbrev SpSt (κ : Type) := Nat → Option (Option κ)   -- none: no key; some none: NOTSET; some (some c)

def ik (k : Key) : Key := k.idx :: k

/-- returns (state, inner events, outer events); inner events always precede outer ones in rxsci -/
def spStep {α β κ} [DecidableEq κ] (p : α → κ) (st : SpSt κ) : Ev α → SpSt κ × List (Ev α) × List (Ev β)
  | .create k => (upd st k.idx (some none), [], [.create k])
  | .next k x =>
    match st k.idx with
    | some none => (upd st k.idx (some (some (p x))), [.create (ik k), .next (ik k) x], [])
    | some (some c) =>
      if p x = c then (st, [.next (ik k) x], [])
      else (upd st k.idx (some (some (p x))), [.done (ik k), .create (ik k), .next (ik k) x], [])
    | none => (st, [], [])
  | .done k =>
    match st k.idx with
    | some (some _) => (upd st k.idx none, [.done (ik k)], [.done k])
    | _ => (upd st k.idx none, [], [.done k])

def demux {β} (l : List (Ev β)) : List (Ev β) :=
  l.filterMap (fun e => match e with | .next (_ :: k) v => some (.next k v) | _ => none)

def wrapStep {α β κ} [DecidableEq κ] (p : α → κ) (Q : MuxOp α β)
    (st : SpSt κ × Q.S) (e : Ev α) : (SpSt κ × Q.S) × List (Ev β) :=
  let r := spStep (β := β) p st.1 e
  let q := runGroup Q.step st.2 r.2.1
  ((r.1, q.1), demux q.2 ++ r.2.2)

/-- the splitter run alone: per outer event, its inner group and its outer events -/
def spRun {α β κ} [DecidableEq κ] (p : α → κ) : SpSt κ → List (Ev α) → List (List (Ev α) × List (Ev β))
  | _, [] => []
  | st, e :: es => let r := spStep (β := β) p st e; r.2 :: spRun p r.1 es

def glue {β} : List (List (Ev β)) → List (List (Ev β)) → List (List (Ev β))
  | q :: qs, o :: os => (demux q ++ o) :: glue qs os
  | _, _ => []

/-- W1: the wrap = run the splitter alone, run Q over the inner groups, demux and glue -/
theorem wrap_decompose {α β κ} [DecidableEq κ] (p : α → κ) (Q : MuxOp α β) :
    ∀ (t : List (Ev α)) (st : SpSt κ) (qs : Q.S),
      runSteps (wrapStep p Q) (st, qs) t =
        glue (runGroups Q.step qs ((spRun (β := β) p st t).map (·.1))) ((spRun (β := β) p st t).map (·.2)) := by
  intro t
  induction t with
  | nil => intro st qs; rfl
  | cons e t ih =>
    intro st qs
    simp only [runSteps, wrapStep, spRun, List.map_cons, runGroups, glue]
    rw [ih]

/-! ### W2: the inner trace of a well-formed outer trace is well-formed (C03, splitter-inner) -/

def wfRun {α} : List Key → List (Ev α) → Option (List Key)
  | l, [] => some l
  | l, e :: es => match wfStep l e with | some l' => wfRun l' es | none => none

theorem wfFrom_eq {α} : ∀ (t : List (Ev α)) (l : List Key), wfFrom l t = (wfRun l t).isSome := by
  intro t; induction t with
  | nil => intro l; rfl
  | cons e t ih =>
    intro l; simp only [wfFrom, wfRun]
    cases wfStep l e with
    | none => rfl
    | some l' => exact ih l'

theorem wfRun_append {α} : ∀ (a b : List (Ev α)) (l : List Key),
    wfRun l (a ++ b) = (wfRun l a).bind (fun l' => wfRun l' b) := by
  intro a; induction a with
  | nil => intro b l; rfl
  | cons e a ih =>
    intro b l; simp only [List.cons_append, wfRun]
    cases wfStep l e with
    | none => rfl
    | some l' => exact ih b l'

@[simp] theorem ik_idx (k : Key) : (ik k).idx = k.idx := rfl
theorem ik_inj {a b : Key} (h : ik a = ik b) : a = b := by
  unfold ik at h; exact (List.cons.inj h).2

def isOpen {κ} (st : SpSt κ) (k : Key) : Prop := ∃ c, st k.idx = some (some c)

structure SpInv {κ} (live : List Key) (st : SpSt κ) (ilive : List Key) : Prop where
  some_ : ∀ k ∈ live, (st k.idx).isSome
  dist : live.Pairwise (fun a b => a.idx ≠ b.idx)
  mem : ∀ k', k' ∈ ilive ↔ ∃ k ∈ live, k' = ik k ∧ isOpen st k
  nodup : ilive.Nodup

theorem pairwise_idx_ne {live : List Key} (h3 : live.Pairwise (fun a b => a.idx ≠ b.idx)) :
    ∀ a ∈ live, ∀ b ∈ live, a ≠ b → a.idx ≠ b.idx := by
  intro a ha b hb hab
  rcases List.mem_iff_getElem.mp ha with ⟨i, hi, rfl⟩
  rcases List.mem_iff_getElem.mp hb with ⟨j, hj, rfl⟩
  have hij : i ≠ j := fun h => hab (by subst h; rfl)
  rcases Nat.lt_or_gt_of_ne hij with h | h
  · exact List.pairwise_iff_getElem.mp h3 i j hi hj h
  · exact fun e => (List.pairwise_iff_getElem.mp h3 j i hj hi h) e.symm

theorem nodup_of_idx {live : List Key} (h3 : live.Pairwise (fun a b => a.idx ≠ b.idx)) : live.Nodup :=
  List.Pairwise.imp (fun hab heq => hab (by rw [heq])) h3

/-- one outer event: its inner group is accepted by the monitor and the invariant is re-established -/
theorem sp_step_wf {α β κ} [DecidableEq κ] (p : α → κ) (e : Ev α)
    (live live' : List Key) (st : SpSt κ) (ilive : List Key)
    (hwf : wfStep live e = some live') (hinv : SpInv live st ilive) :
    ∃ ilive', wfRun ilive (spStep (β := β) p st e).2.1 = some ilive' ∧
      SpInv live' (spStep (β := β) p st e).1 ilive' := by
  obtain ⟨hsome, hdist, hmem, hnd⟩ := hinv
  have hne := pairwise_idx_ne hdist
  cases e with
  | create k =>
    by_cases hany : (live.any fun k' => k'.idx == k.idx) = true
    · simp [wfStep, hany] at hwf
    · simp only [wfStep, hany] at hwf
      have hl : live' = k :: live := by simpa using hwf.symm
      subst hl
      have hfresh : ∀ k' ∈ live, k'.idx ≠ k.idx := by
        intro k' hk' heq; apply hany
        simp only [List.any_eq_true]; exact ⟨k', hk', by simp [heq]⟩
      refine ⟨ilive, by simp [spStep, wfRun], ?_, ?_, ?_, hnd⟩
      · intro k' hk'
        rcases List.mem_cons.mp hk' with rfl | hk'
        · simp [spStep, upd]
        · simp [spStep, upd, hfresh k' hk', hsome k' hk']
      · exact List.pairwise_cons.mpr ⟨fun k' hk' h => hfresh k' hk' h.symm, hdist⟩
      · intro k'
        rw [hmem k']
        constructor
        · rintro ⟨k0, hk0, rfl, c, hc⟩
          exact ⟨k0, List.mem_cons_of_mem _ hk0, rfl, c, by simp [spStep, upd, hfresh k0 hk0, hc]⟩
        · rintro ⟨k0, hk0, rfl, c, hc⟩
          rcases List.mem_cons.mp hk0 with rfl | hk0
          · simp [spStep, upd] at hc
          · exact ⟨k0, hk0, rfl, c, by simpa [spStep, upd, hfresh k0 hk0] using hc⟩
  | next k x =>
    by_cases hk : k ∈ live
    · simp only [wfStep, hk, if_true] at hwf
      have hl : live' = live := by simpa using hwf.symm
      subst hl
      have hks := hsome k hk
      -- keys of live other than k keep their slot
      have hother : ∀ k0 ∈ live', k0 ≠ k → ∀ v, upd st k.idx v k0.idx = st k0.idx := by
        intro k0 hk0 hne0 v; simp [upd, hne k0 hk0 k hk hne0]
      -- no inner key other than `ik k` has idx `k.idx`
      have honly : ∀ k' ∈ ilive, k'.idx = k.idx → k' = ik k := by
        intro k' hk' hidx
        obtain ⟨k0, hk0, rfl, _⟩ := (hmem k').mp hk'
        by_cases h0 : k0 = k
        · rw [h0]
        · exact absurd hidx (hne k0 hk0 k hk h0)
      cases hst : st k.idx with
      | none => simp [hst] at hks
      | some cur =>
        cases cur with
        | none =>
          -- NOTSET: create + next
          have hnotin : ik k ∉ ilive := by
            intro hin
            obtain ⟨k0, _, hik, c, hc⟩ := (hmem _).mp hin
            have := ik_inj hik; subst this
            simp [hst] at hc
          have hany : ¬ ∃ x, x ∈ ilive ∧ x.idx = k.idx := by
            rintro ⟨k', hk', hidx⟩
            exact hnotin (honly k' hk' hidx ▸ hk')
          refine ⟨ik k :: ilive, by simp [spStep, hst, wfRun, wfStep, hany], ?_, hdist, ?_, ?_⟩
          · intro k0 hk0
            by_cases h0 : k0 = k
            · subst h0; simp [spStep, hst, upd]
            · simp [spStep, hst, hother k0 hk0 h0, hsome k0 hk0]
          · intro k'
            simp only [List.mem_cons, hmem k']
            constructor
            · rintro (rfl | ⟨k0, hk0, rfl, c, hc⟩)
              · exact ⟨k, hk, rfl, p x, by simp [spStep, hst, upd]⟩
              · have h0 : k0 ≠ k := by rintro rfl; simp [hst] at hc
                exact ⟨k0, hk0, rfl, c, by simp [spStep, hst, hother k0 hk0 h0, hc]⟩
            · rintro ⟨k0, hk0, rfl, c, hc⟩
              by_cases h0 : k0 = k
              · subst h0; exact Or.inl rfl
              · exact Or.inr ⟨k0, hk0, rfl, c, by simpa [spStep, hst, hother k0 hk0 h0] using hc⟩
          · exact List.nodup_cons.mpr ⟨hnotin, hnd⟩
        | some c =>
          have hin : ik k ∈ ilive := (hmem _).mpr ⟨k, hk, rfl, c, hst⟩
          by_cases hp : p x = c
          · refine ⟨ilive, by simp [spStep, hst, hp, wfRun, wfStep, hin], ?_⟩
            simpa [spStep, hst, hp] using (⟨hsome, hdist, hmem, hnd⟩ : SpInv live' st ilive)
          · have hnotin : ik k ∉ ilive.erase (ik k) := List.Nodup.not_mem_erase hnd
            have hany : ¬ ∃ x, x ∈ ilive.erase (ik k) ∧ x.idx = k.idx := by
              rintro ⟨k', hk', hidx⟩
              have := honly k' (List.mem_of_mem_erase hk') hidx
              exact hnotin (this ▸ hk')
            refine ⟨ik k :: ilive.erase (ik k), by simp [spStep, hst, hp, wfRun, wfStep, hin, hany], ?_, hdist, ?_, ?_⟩
            · intro k0 hk0
              by_cases h0 : k0 = k
              · subst h0; simp [spStep, hst, hp, upd]
              · simp [spStep, hst, hp, hother k0 hk0 h0, hsome k0 hk0]
            · intro k'
              simp only [List.mem_cons]
              constructor
              · rintro (rfl | hk')
                · exact ⟨k, hk, rfl, p x, by simp [spStep, hst, hp, upd]⟩
                · have hk'' := List.mem_of_mem_erase hk'
                  obtain ⟨k0, hk0, rfl, c0, hc0⟩ := (hmem k').mp hk''
                  have h0 : k0 ≠ k := by rintro rfl; exact hnotin hk'
                  exact ⟨k0, hk0, rfl, c0, by simp [spStep, hst, hp, hother k0 hk0 h0, hc0]⟩
              · rintro ⟨k0, hk0, rfl, c0, hc0⟩
                by_cases h0 : k0 = k
                · subst h0; exact Or.inl rfl
                · refine Or.inr ((List.mem_erase_of_ne (fun h => h0 (ik_inj h))).mpr ?_)
                  exact (hmem _).mpr ⟨k0, hk0, rfl, c0, by simpa [spStep, hst, hp, hother k0 hk0 h0] using hc0⟩
            · exact List.nodup_cons.mpr ⟨hnotin, hnd.erase _⟩
    · simp [wfStep, hk] at hwf
  | done k =>
    by_cases hk : k ∈ live
    · simp only [wfStep, hk, if_true] at hwf
      have hl : live' = live.erase k := by simpa using hwf.symm
      subst hl
      have hks := hsome k hk
      have hndl : live.Nodup := nodup_of_idx hdist
      have hother : ∀ k0 ∈ live, k0 ≠ k → ∀ v, upd st k.idx v k0.idx = st k0.idx := by
        intro k0 hk0 hne0 v; simp [upd, hne k0 hk0 k hk hne0]
      have hmem_erase : ∀ k0, k0 ∈ live.erase k ↔ k0 ∈ live ∧ k0 ≠ k := by
        intro k0
        constructor
        · intro h
          refine ⟨List.mem_of_mem_erase h, ?_⟩
          rintro rfl; exact (List.Nodup.not_mem_erase hndl) h
        · rintro ⟨h1, h2⟩; exact (List.mem_erase_of_ne h2).mpr h1
      have hdist' : (live.erase k).Pairwise (fun a b => a.idx ≠ b.idx) := hdist.sublist List.erase_sublist
      cases hst : st k.idx with
      | none => simp [hst] at hks
      | some cur =>
        cases cur with
        | none =>
          refine ⟨ilive, by simp [spStep, hst, wfRun], ?_, hdist', ?_, hnd⟩
          · intro k0 hk0
            obtain ⟨h1, h2⟩ := (hmem_erase k0).mp hk0
            simp [spStep, hst, hother k0 h1 h2, hsome k0 h1]
          · intro k'
            rw [hmem k']
            constructor
            · rintro ⟨k0, hk0, rfl, c, hc⟩
              have h0 : k0 ≠ k := by rintro rfl; simp [hst] at hc
              exact ⟨k0, (hmem_erase k0).mpr ⟨hk0, h0⟩, rfl, c, by simp [spStep, hst, hother k0 hk0 h0, hc]⟩
            · rintro ⟨k0, hk0, rfl, c, hc⟩
              obtain ⟨h1, h2⟩ := (hmem_erase k0).mp hk0
              exact ⟨k0, h1, rfl, c, by simpa [spStep, hst, hother k0 h1 h2] using hc⟩
        | some c =>
          have hin : ik k ∈ ilive := (hmem _).mpr ⟨k, hk, rfl, c, hst⟩
          refine ⟨ilive.erase (ik k), by simp [spStep, hst, wfRun, wfStep, hin], ?_, hdist', ?_, hnd.erase _⟩
          · intro k0 hk0
            obtain ⟨h1, h2⟩ := (hmem_erase k0).mp hk0
            simp [spStep, hst, hother k0 h1 h2, hsome k0 h1]
          · intro k'
            constructor
            · intro hk'
              have hk'' := List.mem_of_mem_erase hk'
              obtain ⟨k0, hk0, rfl, c0, hc0⟩ := (hmem k').mp hk''
              have h0 : k0 ≠ k := by rintro rfl; exact (List.Nodup.not_mem_erase hnd) hk'
              exact ⟨k0, (hmem_erase k0).mpr ⟨hk0, h0⟩, rfl, c0, by simp [spStep, hst, hother k0 hk0 h0, hc0]⟩
            · rintro ⟨k0, hk0, rfl, c0, hc0⟩
              obtain ⟨h1, h2⟩ := (hmem_erase k0).mp hk0
              refine (List.mem_erase_of_ne (fun h => h2 (ik_inj h))).mpr ?_
              exact (hmem _).mpr ⟨k0, h1, rfl, c0, by simpa [spStep, hst, hother k0 h1 h2] using hc0⟩
    · simp [wfStep, hk] at hwf

theorem sp_inner_wf {α β κ} [DecidableEq κ] (p : α → κ) :
    ∀ (t : List (Ev α)) (live : List Key) (st : SpSt κ) (ilive : List Key),
      wfFrom live t = true → SpInv live st ilive →
      wfFrom ilive ((spRun (β := β) p st t).map (·.1)).flatten = true := by
  intro t
  induction t with
  | nil => intros; rfl
  | cons e t ih =>
    intro live st ilive hwf hinv
    simp only [wfFrom] at hwf
    cases hs : wfStep live e with
    | none => simp [hs] at hwf
    | some live' =>
      simp only [hs] at hwf
      obtain ⟨ilive', h1, h2⟩ := sp_step_wf (β := β) p e live live' st ilive hs hinv
      have := ih live' _ ilive' hwf h2
      simp only [spRun, List.map_cons, List.flatten_cons]
      rw [wfFrom_eq, wfRun_append, h1]
      simpa [wfFrom_eq] using this

/-! ### W3: splitter + keyed reference inner = keyed reference of the local wrap -/

def localSplit {α β σ κ} [DecidableEq κ] (p : α → κ) (L : LocalOp α β σ) :
    LocalOp α β (Option κ × Option σ) where
  init := (none, none)
  next := fun cs x =>
    match cs.1, cs.2 with
    | some c, some s =>
      if p x = c then let r := L.next s x; ((some c, some r.1), r.2)
      else let r := L.next L.init x; ((some (p x), some r.1), L.fin s ++ r.2)
    | _, _ => let r := L.next L.init x; ((some (p x), some r.1), r.2)
  fin := fun cs => match cs.2 with | some s => L.fin s | none => []

theorem demux_append {β} (a b : List (Ev β)) : demux (a ++ b) = demux a ++ demux b := by
  simp [demux, List.filterMap_append]

theorem demux_next {β} (k : Key) (xs : List β) :
    demux (xs.map (Ev.next (ik k))) = xs.map (Ev.next k) := by
  induction xs with
  | nil => rfl
  | cons x xs ih =>
    simp only [List.map_cons]
    have : demux (Ev.next (ik k) x :: xs.map (Ev.next (ik k))) =
        Ev.next k x :: demux (xs.map (Ev.next (ik k))) := by
      simp [demux, ik]
    rw [this, ih]

@[simp] theorem demux_create {β} (k : Key) : demux ([Ev.create k] : List (Ev β)) = [] := by simp [demux]
@[simp] theorem demux_done {β} (k : Key) : demux ([Ev.done k] : List (Ev β)) = [] := by simp [demux]
@[simp] theorem demux_nil {β} : demux ([] : List (Ev β)) = [] := rfl

structure Rel {σ κ} (live : List Key) (st : SpSt κ) (rs : Key → Option σ)
    (ro : Key → Option (Option κ × Option σ)) : Prop where
  live_ : ∀ k ∈ live, ∃ c s, ro k = some (c, s) ∧ st k.idx = some c ∧
    (match c with
     | none => s = none
     | some _ => ∃ s', s = some s' ∧ rs (ik k) = some s')
  dead : ∀ k, k ∉ live → ro k = none
  dist : live.Pairwise (fun a b => a.idx ≠ b.idx)

theorem glue_ref {α β σ κ} [DecidableEq κ] (p : α → κ) (L : LocalOp α β σ) :
    ∀ (t : List (Ev α)) (live : List Key) (st : SpSt κ) (rs : Key → Option σ)
      (ro : Key → Option (Option κ × Option σ)),
      wfFrom live t = true → Rel live st rs ro →
      glue (runGroups (refStep L) rs ((spRun (β := β) p st t).map (·.1)))
           ((spRun (β := β) p st t).map (·.2)) =
        runSteps (refStep (localSplit p L)) ro t := by
  intro t
  induction t with
  | nil => intros; rfl
  | cons e t ih =>
    intro live st rs ro hwf hrel
    obtain ⟨hlive, hdead, hdist⟩ := hrel
    have hne := pairwise_idx_ne hdist
    simp only [wfFrom] at hwf
    cases e with
    | create k =>
      by_cases hany : (live.any fun k' => k'.idx == k.idx) = true
      · simp [wfStep, hany] at hwf
      · simp only [wfStep, hany] at hwf
        have hfresh : ∀ k' ∈ live, k'.idx ≠ k.idx := by
          intro k' hk' heq; apply hany
          simp only [List.any_eq_true]; exact ⟨k', hk', by simp [heq]⟩
        have hknot : k ∉ live := fun h => hfresh k h rfl
        simp only [spRun, spStep, List.map_cons, runGroups, runGroup, glue, runSteps, refStep,
          demux_nil, List.nil_append]
        congr 1
        apply ih (k :: live) _ _ _ (by simpa using hwf)
        refine ⟨?_, ?_, List.pairwise_cons.mpr ⟨fun k' hk' h => hfresh k' hk' h.symm, hdist⟩⟩
        · intro k0 hk0
          rcases List.mem_cons.mp hk0 with rfl | hk0
          · exact ⟨none, none, by simp [upd, localSplit], by simp [upd], rfl⟩
          · obtain ⟨c, s, h1, h2, h3⟩ := hlive k0 hk0
            have hne0 : k0 ≠ k := fun h => hknot (h ▸ hk0)
            exact ⟨c, s, by simp [upd, hne0, h1], by simp [upd, hfresh k0 hk0, h2], h3⟩
        · intro k0 hk0
          have hne0 : k0 ≠ k := fun h => hk0 (by simp [h])
          have : k0 ∉ live := fun h => hk0 (List.mem_cons_of_mem _ h)
          simp [upd, hne0, hdead k0 this]
    | next k x =>
      by_cases hk : k ∈ live
      · simp only [wfStep, hk, if_true] at hwf
        obtain ⟨c, s, h1, h2, h3⟩ := hlive k hk
        have hother_st : ∀ k0 ∈ live, k0 ≠ k → ∀ v, upd st k.idx v k0.idx = st k0.idx := by
          intro k0 hk0 hne0 v; simp [upd, hne k0 hk0 k hk hne0]
        have hother_rs : ∀ k0, k0 ≠ k → ∀ (f : Key → Option σ) v, upd f (ik k) v (ik k0) = f (ik k0) := by
          intro k0 hne0 f v
          have : ik k0 ≠ ik k := fun h => hne0 (ik_inj h)
          simp [upd, this]
        -- re-establish Rel after an update of key k only
        have hrel' : ∀ (c' : κ) (s' : σ) (st' : SpSt κ) (rs' : Key → Option σ),
            st' k.idx = some (some c') → rs' (ik k) = some s' →
            (∀ k0 ∈ live, k0 ≠ k → st' k0.idx = st k0.idx) →
            (∀ k0, k0 ≠ k → rs' (ik k0) = rs (ik k0)) →
            Rel live st' rs' (upd ro k (some (some c', some s'))) := by
          intro c' s' st' rs' hst' hrs' hso hro
          refine ⟨?_, ?_, hdist⟩
          · intro k0 hk0
            by_cases h0 : k0 = k
            · subst h0; exact ⟨some c', some s', by simp [upd], hst', s', rfl, hrs'⟩
            · obtain ⟨c0, s0, g1, g2, g3⟩ := hlive k0 hk0
              refine ⟨c0, s0, by simp [upd, h0, g1], by rw [hso k0 hk0 h0, g2], ?_⟩
              cases c0 with
              | none => exact g3
              | some c0 =>
                obtain ⟨s0', g4, g5⟩ := g3
                exact ⟨s0', g4, by rw [hro k0 h0, g5]⟩
          · intro k0 hk0
            have h0 : k0 ≠ k := fun h => hk0 (h ▸ hk)
            simp [upd, h0, hdead k0 hk0]
        cases c with
        | none =>
          subst h3
          simp only [spRun, spStep, h2, List.map_cons, runGroups, runGroup, glue, runSteps, refStep, h1,
            upd, if_true, localSplit, List.append_nil, demux_append, demux_create, demux_next,
            List.nil_append]
          congr 1
          apply ih live _ _ _ hwf
          apply hrel' (p x) (L.next L.init x).1
          · simp [upd]
          · simp [upd]
          · intro k0 hk0 h0; exact hother_st k0 hk0 h0 _
          · intro k0 h0
            have : ik k0 ≠ ik k := fun h => h0 (ik_inj h)
            simp [upd, this]
        | some c =>
          obtain ⟨s', rfl, h4⟩ := h3
          by_cases hp : p x = c
          · simp only [spRun, spStep, h2, hp, if_true, List.map_cons, runGroups, runGroup, glue, runSteps,
              refStep, h1, h4, localSplit, List.append_nil, demux_next]
            congr 1
            apply ih live _ _ _ hwf
            have := hrel' c (L.next s' x).1 st (upd rs (ik k) (some (L.next s' x).1)) h2 (by simp [upd])
              (fun _ _ _ => rfl) (fun k0 h0 => hother_rs k0 h0 rs _)
            simpa [hp] using this
          · simp only [spRun, spStep, h2, hp, if_false, List.map_cons, runGroups, runGroup, glue, runSteps,
              refStep, h1, h4, upd, if_true, localSplit, List.append_nil, demux_append, demux_create,
              demux_done, demux_next, List.nil_append, List.map_append, List.append_assoc]
            congr 1
            apply ih live _ _ _ hwf
            apply hrel' (p x) (L.next L.init x).1
            · simp [upd]
            · simp [upd]
            · intro k0 hk0 h0; exact hother_st k0 hk0 h0 _
            · intro k0 h0
              have : ik k0 ≠ ik k := fun h => h0 (ik_inj h)
              simp [upd, this]
      · simp [wfStep, hk] at hwf
    | done k =>
      by_cases hk : k ∈ live
      · simp only [wfStep, hk, if_true] at hwf
        obtain ⟨c, s, h1, h2, h3⟩ := hlive k hk
        have hndl : live.Nodup := nodup_of_idx hdist
        have hmem_erase : ∀ k0, k0 ∈ live.erase k ↔ k0 ∈ live ∧ k0 ≠ k := by
          intro k0
          constructor
          · intro h
            refine ⟨List.mem_of_mem_erase h, ?_⟩
            rintro rfl; exact (List.Nodup.not_mem_erase hndl) h
          · rintro ⟨g1, g2⟩; exact (List.mem_erase_of_ne g2).mpr g1
        have hrel' : ∀ (rs' : Key → Option σ), (∀ k0, k0 ≠ k → rs' (ik k0) = rs (ik k0)) →
            Rel (live.erase k) (upd st k.idx none) rs' (upd ro k none) := by
          intro rs' hro
          refine ⟨?_, ?_, hdist.sublist List.erase_sublist⟩
          · intro k0 hk0
            obtain ⟨g1, g2⟩ := (hmem_erase k0).mp hk0
            obtain ⟨c0, s0, f1, f2, f3⟩ := hlive k0 g1
            refine ⟨c0, s0, by simp [upd, g2, f1], by simp [upd, hne k0 g1 k hk g2, f2], ?_⟩
            cases c0 with
            | none => exact f3
            | some c0 =>
              obtain ⟨s0', f4, f5⟩ := f3
              exact ⟨s0', f4, by rw [hro k0 g2, f5]⟩
          · intro k0 hk0
            by_cases h0 : k0 = k
            · subst h0; simp [upd]
            · have : k0 ∉ live := fun h => hk0 ((hmem_erase k0).mpr ⟨h, h0⟩)
              simp [upd, h0, hdead k0 this]
        cases c with
        | none =>
          subst h3
          simp only [spRun, spStep, h2, List.map_cons, runGroups, runGroup, glue, runSteps, refStep, h1,
            localSplit, demux_nil, List.nil_append, List.map_nil]
          congr 1
          exact ih (live.erase k) _ _ _ hwf (hrel' rs (fun _ _ => rfl))
        | some c =>
          obtain ⟨s', rfl, h4⟩ := h3
          simp only [spRun, spStep, h2, List.map_cons, runGroups, runGroup, glue, runSteps, refStep, h1, h4,
            localSplit, List.append_nil, demux_append, demux_done, demux_next]
          congr 1
          apply ih (live.erase k) _ _ _ hwf
          apply hrel'
          intro k0 h0
          have : ik k0 ≠ ik k := fun h => h0 (ik_inj h)
          simp [upd, this]
      · simp [wfStep, hk] at hwf

/-- **the inductive step of `impl_eq_ref` for a splitter**: if the inner operator `Q` agrees with the keyed
    reference lift of `L` on every well-formed trace (induction hypothesis), then `split` wrapped around
    `Q` agrees with the keyed reference lift of the local operator `localSplit p L` on every well-formed
    trace — all chunks, all keys, all interleavings. -/
theorem wrap_eq_ref {α β σ κ} [DecidableEq κ] (p : α → κ) (Q : MuxOp α β) (L : LocalOp α β σ)
    (hQ : ∀ t, wfFrom [] t = true →
      runSteps Q.step Q.init t = runSteps (refStep L) (fun _ => none) t)
    (t : List (Ev α)) (ht : wfFrom [] t = true) :
    runSteps (wrapStep p Q) ((fun _ => none), Q.init) t =
      runSteps (refStep (localSplit p L)) (fun _ => none) t := by
  rw [wrap_decompose]
  have hinner : wfFrom [] ((spRun (β := β) p (fun _ => none) t).map (·.1)).flatten = true :=
    sp_inner_wf (β := β) p t [] (fun _ => none) [] ht
      ⟨by simp, List.Pairwise.nil, by simp, List.nodup_nil⟩
  rw [runGroups_congr Q.step (refStep L) _ Q.init (fun _ => none) (hQ _ hinner)]
  exact glue_ref p L t [] (fun _ => none) (fun _ => none) (fun _ => none) ht
    ⟨by simp, fun _ _ => rfl, List.Pairwise.nil⟩
#print axioms wrap_eq_ref

def splitC {α} [DecidableEq α] (sep : α) : List α → List (List α)
  | [] => [[]]
  | c :: cs =>
    if c = sep then [] :: splitC sep cs
    else match splitC sep cs with
      | [] => [[c]]
      | p :: ps => (c :: p) :: ps

theorem splitC_ne_nil {α} [DecidableEq α] (sep : α) (l : List α) : splitC sep l ≠ [] := by
  induction l with
  | nil => simp [splitC]
  | cons c cs ih =>
    unfold splitC
    split
    · simp
    · split <;> simp

/-- last piece and the pieces before it -/
def lastP {α} (l : List (List α)) : List α := l.getLastD []

theorem splitC_append {α} [DecidableEq α] (sep : α) (a b : List α) :
    splitC sep (a ++ b) = (splitC sep a).dropLast ++ splitC sep (lastP (splitC sep a) ++ b) := by
  induction a with
  | nil => simp [splitC, lastP]
  | cons c cs ih =>
    by_cases hc : c = sep
    · subst hc
      have hne := splitC_ne_nil c cs
      simp only [List.cons_append, splitC, if_true]
      rw [ih]
      cases hs : splitC c cs with
      | nil => exact absurd hs hne
      | cons p ps => simp [lastP, List.dropLast]
    · have hne := splitC_ne_nil sep cs
      have hne2 := splitC_ne_nil sep (cs ++ b)
      simp only [List.cons_append, splitC, hc, if_false]
      rw [ih]
      cases hs : splitC sep cs with
      | nil => exact absurd hs hne
      | cons p ps =>
        cases ps with
        | nil =>
          simp only [lastP, List.dropLast, List.getLastD, List.nil_append]
          show _ = splitC sep ((c :: p) ++ b)
          simp only [List.cons_append, splitC, hc, if_false]
          cases hq : splitC sep (p ++ b) with
          | nil => exact absurd hq (splitC_ne_nil sep _)
          | cons q qs => simp [hq]
        | cons p2 ps2 =>
          simp [lastP, List.dropLast]

#print axioms splitC_append

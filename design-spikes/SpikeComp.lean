/-! Spike: the inductive step of `impl_eq_ref` for SEQUENTIAL COMPOSITION of two arbitrary mux operators
    that are only known (induction hypotheses) to equal keyed reference lifts on well-formed traces. -/

abbrev Key := List Nat
def Key.idx (k : Key) : Nat := k.headD 0

inductive Ev (α : Type) where
  | create (k : Key) | next (k : Key) (v : α) | done (k : Key)

structure LocalOp (α β σ : Type) where
  init : σ
  next : σ → α → σ × List β
  fin  : σ → List β

def upd {κ : Type} [DecidableEq κ] {σ} (f : κ → Option σ) (k : κ) (v : Option σ) : κ → Option σ :=
  fun k' => if k' = k then v else f k'

def refStep {α β σ} (P : LocalOp α β σ) (st : Key → Option σ) : Ev α → (Key → Option σ) × List (Ev β)
  | .create k => (upd st k (some P.init), [.create k])
  | .next k v =>
    match st k with
    | some s => let r := P.next s v; (upd st k (some r.1), r.2.map (.next k))
    | none => (st, [])
  | .done k =>
    match st k with
    | some s => (upd st k none, (P.fin s).map (.next k) ++ [.done k])
    | none => (st, [.done k])

def runSteps {S E O} (step : S → E → S × List O) : S → List E → List (List O)
  | _, [] => []
  | s, e :: es => let r := step s e; r.2 :: runSteps step r.1 es

def finalState {S E O} (step : S → E → S × List O) : S → List E → S
  | s, [] => s
  | s, e :: es => finalState step (step s e).1 es

def wfStep {α} (live : List Key) : Ev α → Option (List Key)
  | .create k => if live.any (fun k' => k'.idx == k.idx) then none else some (k :: live)
  | .next k _ => if k ∈ live then some live else none
  | .done k => if k ∈ live then some (live.erase k) else none

def wfFrom {α} : List Key → List (Ev α) → Bool
  | _, [] => true
  | live, e :: es => match wfStep live e with | some l => wfFrom l es | none => false

/-! ### grouped runs -/

def runGroup {S E O} (step : S → E → S × List O) : S → List E → S × List O
  | s, [] => (s, [])
  | s, e :: es => let r := step s e; let r2 := runGroup step r.1 es; (r2.1, r.2 ++ r2.2)

def runGroups {S E O} (step : S → E → S × List O) : S → List (List E) → List (List O)
  | _, [] => []
  | s, g :: gs => let r := runGroup step s g; r.2 :: runGroups step r.1 gs

def regroup {O} : List Nat → List (List O) → List (List O)
  | [], _ => []
  | n :: ns, cs => (cs.take n).flatten :: regroup ns (cs.drop n)

theorem runSteps_append {S E O} (step : S → E → S × List O) :
    ∀ (a b : List E) (s : S),
      runSteps step s (a ++ b) = runSteps step s a ++ runSteps step (finalState step s a) b := by
  intro a
  induction a with
  | nil => intro b s; rfl
  | cons e a ih => intro b s; simp [runSteps, finalState, ih]

theorem runSteps_length {S E O} (step : S → E → S × List O) :
    ∀ (a : List E) (s : S), (runSteps step s a).length = a.length := by
  intro a; induction a with
  | nil => intro s; rfl
  | cons e a ih => intro s; simp [runSteps, ih]

theorem runGroup_eq {S E O} (step : S → E → S × List O) :
    ∀ (g : List E) (s : S),
      runGroup step s g = (finalState step s g, (runSteps step s g).flatten) := by
  intro g; induction g with
  | nil => intro s; rfl
  | cons e g ih => intro s; simp [runGroup, finalState, runSteps, ih]

theorem runGroups_regroup {S E O} (step : S → E → S × List O) :
    ∀ (gs : List (List E)) (s : S),
      runGroups step s gs = regroup (gs.map List.length) (runSteps step s gs.flatten) := by
  intro gs; induction gs with
  | nil => intro s; rfl
  | cons g gs ih =>
    intro s
    simp only [runGroups, List.map_cons, List.flatten_cons, regroup, runSteps_append, runGroup_eq]
    have hl := runSteps_length step g s
    rw [List.take_left' hl, List.drop_left' hl, ih]

/-- if two machines agree chunk-by-chunk on the flat trace, they agree on any grouping of it -/
theorem runGroups_congr {S S' E O} (step : S → E → S × List O) (step' : S' → E → S' × List O)
    (gs : List (List E)) (s : S) (s' : S')
    (h : runSteps step s gs.flatten = runSteps step' s' gs.flatten) :
    runGroups step s gs = runGroups step' s' gs := by
  rw [runGroups_regroup, runGroups_regroup, h]


structure MuxOp (α β : Type) where
  S : Type
  init : S
  step : S → Ev α → S × List (Ev β)

def compStep {α β γ} (Q1 : MuxOp α β) (Q2 : MuxOp β γ) (st : Q1.S × Q2.S) (e : Ev α) :
    (Q1.S × Q2.S) × List (Ev γ) :=
  let r1 := Q1.step st.1 e
  let r2 := runGroup Q2.step st.2 r1.2
  ((r1.1, r2.1), r2.2)

theorem comp_decompose {α β γ} (Q1 : MuxOp α β) (Q2 : MuxOp β γ) :
    ∀ (t : List (Ev α)) (s1 : Q1.S) (s2 : Q2.S),
      runSteps (compStep Q1 Q2) (s1, s2) t = runGroups Q2.step s2 (runSteps Q1.step s1 t) := by
  intro t
  induction t with
  | nil => intros; rfl
  | cons e t ih => intro s1 s2; simp only [runSteps, compStep, runGroups]; rw [ih]

/-! ### the keyed reference lift maps well-formed traces to well-formed traces -/

def wfRun {α} : List Key → List (Ev α) → Option (List Key)
  | l, [] => some l
  | l, e :: es => match wfStep l e with | some l' => wfRun l' es | none => none

theorem wfFrom_eq {α} : ∀ (t : List (Ev α)) (l : List Key), wfFrom l t = (wfRun l t).isSome := by
  intro t; induction t with
  | nil => intro l; rfl
  | cons e t ih =>
    intro l; simp only [wfFrom, wfRun]
    cases wfStep l e with
    | none => rfl
    | some l' => exact ih l'

theorem wfRun_append {α} : ∀ (a b : List (Ev α)) (l : List Key),
    wfRun l (a ++ b) = (wfRun l a).bind (fun l' => wfRun l' b) := by
  intro a; induction a with
  | nil => intro b l; rfl
  | cons e a ih =>
    intro b l; simp only [List.cons_append, wfRun]
    cases wfStep l e with
    | none => rfl
    | some l' => exact ih b l'

theorem wfRun_nexts {β} (k : Key) (l : List Key) (hk : k ∈ l) :
    ∀ xs : List β, wfRun l (xs.map (Ev.next k)) = some l := by
  intro xs; induction xs with
  | nil => rfl
  | cons x xs ih => simp [wfRun, wfStep, hk, ih]

/-- one event: the reference chunk is accepted by the monitor with the same resulting live set -/
theorem ref_chunk_wf {α β σ} (L : LocalOp α β σ) (e : Ev α) (live live' : List Key)
    (st : Key → Option σ) (hwf : wfStep live e = some live') :
    wfRun live (refStep L st e).2 = some live' := by
  cases e with
  | create k =>
    simp only [refStep, wfRun]
    simp only [wfStep] at hwf ⊢
    by_cases hany : (live.any fun k' => k'.idx == k.idx) = true
    · simp [hany] at hwf
    · simp only [hany] at hwf ⊢; simpa using hwf
  | next k x =>
    by_cases hk : k ∈ live
    · simp only [wfStep, hk, if_true] at hwf
      have : live' = live := by simpa using hwf.symm
      subst this
      simp only [refStep]
      cases st k with
      | none => rfl
      | some s => exact wfRun_nexts k live' hk _
    · simp [wfStep, hk] at hwf
  | done k =>
    by_cases hk : k ∈ live
    · simp only [wfStep, hk, if_true] at hwf
      simp only [refStep]
      cases st k with
      | none => simp [wfRun, wfStep, hk]; simpa using hwf
      | some s =>
        rw [wfRun_append, wfRun_nexts k live hk]
        simp [wfRun, wfStep, hk]; simpa using hwf
    · simp [wfStep, hk] at hwf

theorem ref_wf {α β σ} (L : LocalOp α β σ) :
    ∀ (t : List (Ev α)) (live : List Key) (st : Key → Option σ),
      wfFrom live t = true → wfFrom live (runSteps (refStep L) st t).flatten = true := by
  intro t
  induction t with
  | nil => intros; rfl
  | cons e t ih =>
    intro live st hwf
    simp only [wfFrom] at hwf
    cases hs : wfStep live e with
    | none => simp [hs] at hwf
    | some live' =>
      simp only [hs] at hwf
      simp only [runSteps, List.flatten_cons]
      rw [wfFrom_eq, wfRun_append, ref_chunk_wf L e live live' st hs]
      simpa [wfFrom_eq] using ih live' _ hwf

/-! ### local composition and the simulation -/

def feedLocal {β γ σ} (L : LocalOp β γ σ) : σ → List β → σ × List γ
  | s, [] => (s, [])
  | s, x :: xs => let r := L.next s x; let r2 := feedLocal L r.1 xs; (r2.1, r.2 ++ r2.2)

def compLocal {α β γ σ1 σ2} (L1 : LocalOp α β σ1) (L2 : LocalOp β γ σ2) : LocalOp α γ (σ1 × σ2) where
  init := (L1.init, L2.init)
  next := fun s x =>
    let r1 := L1.next s.1 x
    let r2 := feedLocal L2 s.2 r1.2
    ((r1.1, r2.1), r2.2)
  fin := fun s =>
    let r2 := feedLocal L2 s.2 (L1.fin s.1)
    r2.2 ++ L2.fin r2.1

/-- feeding a run of items of one live key to the reference lift = feeding them to the local operator -/
theorem runGroup_nexts {β γ σ} (L : LocalOp β γ σ) (k : Key) :
    ∀ (xs : List β) (st : Key → Option σ) (b : σ), st k = some b →
      runGroup (refStep L) st (xs.map (Ev.next k)) =
        (upd st k (some (feedLocal L b xs).1), (feedLocal L b xs).2.map (Ev.next k)) := by
  intro xs
  induction xs with
  | nil =>
    intro st b hb
    simp only [List.map_nil, runGroup, feedLocal]
    congr 1
    funext k'; by_cases h : k' = k
    · subst h; simp [upd, hb]
    · simp [upd, h]
  | cons x xs ih =>
    intro st b hb
    simp only [List.map_cons, runGroup, refStep, hb, feedLocal]
    rw [ih (upd st k (some (L.next b x).1)) (L.next b x).1 (by simp [upd])]
    simp only [List.map_append]
    congr 1
    funext k'; by_cases h : k' = k
    · subst h; simp [upd]
    · simp [upd, h]

theorem runGroup_append {S E O} (step : S → E → S × List O) :
    ∀ (a b : List E) (s : S),
      runGroup step s (a ++ b) =
        ((runGroup step (runGroup step s a).1 b).1, (runGroup step s a).2 ++ (runGroup step (runGroup step s a).1 b).2) := by
  intro a; induction a with
  | nil => intro b s; simp [runGroup]
  | cons e a ih => intro b s; simp [runGroup, ih, List.append_assoc]

structure CRel {σ1 σ2} (live : List Key) (s1 : Key → Option σ1) (s2 : Key → Option σ2)
    (sr : Key → Option (σ1 × σ2)) : Prop where
  live_ : ∀ k ∈ live, ∃ a b, sr k = some (a, b) ∧ s1 k = some a ∧ s2 k = some b
  dead : ∀ k, k ∉ live → sr k = none ∧ s1 k = none ∧ s2 k = none
  nodup : live.Nodup

theorem comp_sim {α β γ σ1 σ2} (L1 : LocalOp α β σ1) (L2 : LocalOp β γ σ2) :
    ∀ (t : List (Ev α)) (live : List Key) (s1 : Key → Option σ1) (s2 : Key → Option σ2)
      (sr : Key → Option (σ1 × σ2)),
      wfFrom live t = true → CRel live s1 s2 sr →
      runGroups (refStep L2) s2 (runSteps (refStep L1) s1 t) =
        runSteps (refStep (compLocal L1 L2)) sr t := by
  intro t
  induction t with
  | nil => intros; rfl
  | cons e t ih =>
    intro live s1 s2 sr hwf hrel
    obtain ⟨hlive, hdead, hnd⟩ := hrel
    simp only [wfFrom] at hwf
    cases e with
    | create k =>
      by_cases hany : (live.any fun k' => k'.idx == k.idx) = true
      · simp [wfStep, hany] at hwf
      · simp only [wfStep, hany] at hwf
        have hknot : k ∉ live := by
          intro h; apply hany; simp only [List.any_eq_true]; exact ⟨k, h, by simp⟩
        simp only [runSteps, refStep, runGroups, runGroup, List.append_nil]
        congr 1
        apply ih (k :: live) _ _ _ (by simpa using hwf)
        refine ⟨?_, ?_, List.nodup_cons.mpr ⟨hknot, hnd⟩⟩
        · intro k0 hk0
          rcases List.mem_cons.mp hk0 with rfl | hk0
          · exact ⟨L1.init, L2.init, by simp [upd, compLocal], by simp [upd], by simp [upd]⟩
          · obtain ⟨a, b, g1, g2, g3⟩ := hlive k0 hk0
            have h0 : k0 ≠ k := fun h => hknot (h ▸ hk0)
            exact ⟨a, b, by simp [upd, h0, g1], by simp [upd, h0, g2], by simp [upd, h0, g3]⟩
        · intro k0 hk0
          have h0 : k0 ≠ k := fun h => hk0 (by simp [h])
          have hn : k0 ∉ live := fun h => hk0 (List.mem_cons_of_mem _ h)
          obtain ⟨g1, g2, g3⟩ := hdead k0 hn
          exact ⟨by simp [upd, h0, g1], by simp [upd, h0, g2], by simp [upd, h0, g3]⟩
    | next k x =>
      by_cases hk : k ∈ live
      · simp only [wfStep, hk, if_true] at hwf
        obtain ⟨a, b, g1, g2, g3⟩ := hlive k hk
        simp only [runSteps, refStep, g1, g2, runGroups, compLocal]
        rw [runGroup_nexts L2 k _ s2 b g3]
        congr 1
        apply ih live _ _ _ hwf
        refine ⟨?_, ?_, hnd⟩
        · intro k0 hk0
          by_cases h0 : k0 = k
          · subst h0
            exact ⟨(L1.next a x).1, (feedLocal L2 b (L1.next a x).2).1,
              by simp [upd], by simp [upd], by simp [upd]⟩
          · obtain ⟨a0, b0, f1, f2, f3⟩ := hlive k0 hk0
            exact ⟨a0, b0, by simp [upd, h0, f1], by simp [upd, h0, f2], by simp [upd, h0, f3]⟩
        · intro k0 hk0
          have h0 : k0 ≠ k := fun h => hk0 (h ▸ hk)
          obtain ⟨f1, f2, f3⟩ := hdead k0 hk0
          exact ⟨by simp [upd, h0, f1], by simp [upd, h0, f2], by simp [upd, h0, f3]⟩
      · simp [wfStep, hk] at hwf
    | done k =>
      by_cases hk : k ∈ live
      · simp only [wfStep, hk, if_true] at hwf
        obtain ⟨a, b, g1, g2, g3⟩ := hlive k hk
        simp only [runSteps, refStep, g1, g2, runGroups, compLocal]
        rw [runGroup_append, runGroup_nexts L2 k _ s2 b g3]
        simp only [runGroup, refStep, upd, if_true, List.append_nil, List.map_append, List.append_assoc]
        congr 1
        apply ih (live.erase k) _ _ _ hwf
        have hmem_erase : ∀ k0, k0 ∈ live.erase k ↔ k0 ∈ live ∧ k0 ≠ k := by
          intro k0
          constructor
          · intro h
            refine ⟨List.mem_of_mem_erase h, ?_⟩
            rintro rfl; exact (List.Nodup.not_mem_erase hnd) h
          · rintro ⟨f1, f2⟩; exact (List.mem_erase_of_ne f2).mpr f1
        refine ⟨?_, ?_, hnd.erase _⟩
        · intro k0 hk0
          obtain ⟨f1, f2⟩ := (hmem_erase k0).mp hk0
          obtain ⟨a0, b0, e1, e2, e3⟩ := hlive k0 f1
          exact ⟨a0, b0, by simp [upd, f2, e1], by simp [upd, f2, e2], by simp [upd, f2, e3]⟩
        · intro k0 hk0
          by_cases h0 : k0 = k
          · subst h0; exact ⟨by simp [upd], by simp [upd], by simp [upd]⟩
          · have hn : k0 ∉ live := fun h => hk0 ((hmem_erase k0).mpr ⟨h, h0⟩)
            obtain ⟨e1, e2, e3⟩ := hdead k0 hn
            exact ⟨by simp [upd, h0, e1], by simp [upd, h0, e2], by simp [upd, h0, e3]⟩
      · simp [wfStep, hk] at hwf

/-- **the inductive step of `impl_eq_ref` for sequential composition** -/
theorem comp_eq_ref {α β γ σ1 σ2} (Q1 : MuxOp α β) (Q2 : MuxOp β γ)
    (L1 : LocalOp α β σ1) (L2 : LocalOp β γ σ2)
    (h1 : ∀ t, wfFrom [] t = true → runSteps Q1.step Q1.init t = runSteps (refStep L1) (fun _ => none) t)
    (h2 : ∀ t, wfFrom [] t = true → runSteps Q2.step Q2.init t = runSteps (refStep L2) (fun _ => none) t)
    (t : List (Ev α)) (ht : wfFrom [] t = true) :
    runSteps (compStep Q1 Q2) (Q1.init, Q2.init) t =
      runSteps (refStep (compLocal L1 L2)) (fun _ => none) t := by
  rw [comp_decompose, h1 t ht]
  have hmid := ref_wf L1 t [] (fun _ => none) ht
  rw [runGroups_congr Q2.step (refStep L2) _ Q2.init (fun _ => none) (h2 _ hmid)]
  exact comp_sim L1 L2 t [] _ _ _ ht ⟨by simp, fun _ _ => ⟨rfl, rfl, rfl⟩, List.nodup_nil⟩
#print axioms comp_eq_ref

abbrev Key := List Nat
def Key.idx (k : Key) : Nat := k.headD 0

inductive Ev (α : Type) where
  | create (k : Key) | next (k : Key) (v : α) | done (k : Key)

structure LocalOp (α β σ : Type) where
  init : σ
  next : σ → α → σ × List β
  fin  : σ → List β

def upd {κ : Type} [DecidableEq κ] {σ} (f : κ → Option σ) (k : κ) (v : Option σ) : κ → Option σ :=
  fun k' => if k' = k then v else f k'

/-- indexed implementation: state addressed by key[0] only (what rxsci does) -/
def idxStep {α β σ} (P : LocalOp α β σ) (st : Nat → Option σ) : Ev α → (Nat → Option σ) × List (Ev β)
  | .create k => (upd st k.idx (some P.init), [.create k])
  | .next k v =>
    match st k.idx with
    | some s => let r := P.next s v; (upd st k.idx (some r.1), r.2.map (.next k))
    | none => (st, [])
  | .done k =>
    match st k.idx with
    | some s => (upd st k.idx none, (P.fin s).map (.next k) ++ [.done k])
    | none => (st, [.done k])

/-- keyed reference semantics: state addressed by the whole key -/
def refStep {α β σ} (P : LocalOp α β σ) (st : Key → Option σ) : Ev α → (Key → Option σ) × List (Ev β)
  | .create k => (upd st k (some P.init), [.create k])
  | .next k v =>
    match st k with
    | some s => let r := P.next s v; (upd st k (some r.1), r.2.map (.next k))
    | none => (st, [])
  | .done k =>
    match st k with
    | some s => (upd st k none, (P.fin s).map (.next k) ++ [.done k])
    | none => (st, [.done k])

def runSteps {S E O} (step : S → E → S × List O) : S → List E → List (List O)
  | _, [] => []
  | s, e :: es => let r := step s e; r.2 :: runSteps step r.1 es

def wfStep {α} (live : List Key) : Ev α → Option (List Key)
  | .create k => if live.any (fun k' => k'.idx == k.idx) then none else some (k :: live)
  | .next k _ => if k ∈ live then some live else none
  | .done k => if k ∈ live then some (live.erase k) else none

def wfFrom {α} : List Key → List (Ev α) → Bool
  | _, [] => true
  | live, e :: es => match wfStep live e with | some l => wfFrom l es | none => false

def Agree {σ} (live : List Key) (si : Nat → Option σ) (sr : Key → Option σ) : Prop :=
  (∀ k ∈ live, si k.idx = sr k ∧ (sr k).isSome) ∧ (∀ k, k ∉ live → sr k = none) ∧
  live.Pairwise (fun a b => a.idx ≠ b.idx)

theorem lift_eq {α β σ} (P : LocalOp α β σ) :
    ∀ (es : List (Ev α)) (live : List Key) (si : Nat → Option σ) (sr : Key → Option σ),
      Agree live si sr → wfFrom live es = true →
      runSteps (idxStep P) si es = runSteps (refStep P) sr es := by
  intro es
  induction es with
  | nil => intros; rfl
  | cons e es ih =>
    intro live si sr hag hwf
    obtain ⟨h1, h2, h3⟩ := hag
    have hdist : ∀ a ∈ live, ∀ b ∈ live, a ≠ b → a.idx ≠ b.idx := by
      intro a ha b hb hab
      rcases List.mem_iff_getElem.mp ha with ⟨i, hi, rfl⟩
      rcases List.mem_iff_getElem.mp hb with ⟨j, hj, rfl⟩
      have hij : i ≠ j := fun h => hab (by subst h; rfl)
      rcases Nat.lt_or_gt_of_ne hij with h | h
      · exact List.pairwise_iff_getElem.mp h3 i j hi hj h
      · exact fun e => (List.pairwise_iff_getElem.mp h3 j i hj hi h) e.symm
    cases e with
    | create k =>
      by_cases hany : (live.any fun k' => k'.idx == k.idx) = true
      · simp [wfFrom, wfStep, hany] at hwf
      · simp only [wfFrom, wfStep, hany] at hwf
        simp only [runSteps, idxStep, refStep]
        congr 1
        apply ih (k :: live) _ _ _ (by simpa using hwf)
        have hfresh : ∀ k' ∈ live, k'.idx ≠ k.idx := by
          intro k' hk' heq
          apply hany
          simp only [List.any_eq_true]
          exact ⟨k', hk', by simp [heq]⟩
        refine ⟨?_, ?_, ?_⟩
        · intro k' hk'
          rcases List.mem_cons.mp hk' with rfl | hk'
          · simp [upd]
          · have hne : k'.idx ≠ k.idx := hfresh k' hk'
            have hne2 : k' ≠ k := fun h => hne (by rw [h])
            simp [upd, hne, hne2, h1 k' hk']
        · intro k' hk'
          have : k' ≠ k := fun h => hk' (by simp [h])
          have hk'' : k' ∉ live := fun h => hk' (List.mem_cons_of_mem _ h)
          simp [upd, this, h2 k' hk'']
        · refine List.pairwise_cons.mpr ⟨?_, h3⟩
          intro k' hk'; exact fun h => hfresh k' hk' h.symm
    | next k v =>
      by_cases hk : k ∈ live
      · simp only [wfFrom, wfStep, hk, if_true] at hwf
        obtain ⟨hkeq, hsome⟩ := h1 k hk
        simp only [runSteps, idxStep, refStep]
        rw [hkeq]
        cases hs : sr k with
        | none => simp [hs] at hsome
        | some s =>
          simp only
          congr 1
          apply ih live _ _ _ hwf
          refine ⟨?_, ?_, h3⟩
          · intro k' hk'
            by_cases hkk : k' = k
            · subst hkk; simp [upd]
            · have hne : k'.idx ≠ k.idx := hdist k' hk' k hk hkk
              simp [upd, hne, hkk, h1 k' hk']
          · intro k' hk'
            have : k' ≠ k := fun h => hk' (h ▸ hk)
            simp [upd, this, h2 k' hk']
      · simp [wfFrom, wfStep, hk] at hwf
    | done k =>
      by_cases hk : k ∈ live
      · simp only [wfFrom, wfStep, hk, if_true] at hwf
        obtain ⟨hkeq, hsome⟩ := h1 k hk
        simp only [runSteps, idxStep, refStep]
        rw [hkeq]
        cases hs : sr k with
        | none => simp [hs] at hsome
        | some s =>
          simp only
          congr 1
          apply ih (live.erase k) _ _ _ hwf
          have hnodup : live.Nodup := by
            refine List.Pairwise.imp ?_ h3
            intro a b hab heq; exact hab (by rw [heq])
          refine ⟨?_, ?_, h3.sublist (List.erase_sublist)⟩
          · intro k' hk'
            have hk'l : k' ∈ live := List.mem_of_mem_erase hk'
            have hkk : k' ≠ k := by
              intro h; subst h
              exact (List.Nodup.not_mem_erase hnodup) hk'
            have hne : k'.idx ≠ k.idx := hdist k' hk'l k hk hkk
            simp [upd, hne, hkk, h1 k' hk'l]
          · intro k' hk'
            by_cases hkk : k' = k
            · subst hkk; simp [upd]
            · have : k' ∉ live := fun h => hk' ((List.mem_erase_of_ne hkk).mpr h)
              simp [upd, hkk, h2 k' this]
      · simp [wfFrom, wfStep, hk] at hwf

#print axioms lift_eq

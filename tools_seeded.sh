#!/bin/bash
# usage: tools_seeded.sh <prop> <seeded-dir-name...>   applies each seeded patch to /repo, runs ./check <prop> quick, reverts
prop=$1; shift
for d in "$@"; do
  p=/verif/seeded/$d/patch.diff
  if ! git -C /repo apply --check $p 2>/dev/null; then echo "$d: patch does not apply"; continue; fi
  git -C /repo apply $p
  out=$(cd /verif && timeout 900 ./check $prop quick 2>&1 | tail -4)
  rc=$?
  git -C /repo apply -R $p
  echo "== $d: $(echo "$out" | grep -c VIOLATION) violation lines; $(echo "$out" | tail -1)"
done

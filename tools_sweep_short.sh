cd lean && lake build RxModel Driver rxdriver 2>&1 | tail -1; cd ..
for s in 41 42 43 44; do for i in $(seq -w 1 20); do VERIF_SEED=$s VERIF_OUT=$PWD/sweepout timeout 3000 ./check C$i quick 2>&1 | tail -2 | grep -v "exit 0"; done; done
echo QUICK-SWEEP-DONE
for s in 51; do for i in $(seq -w 1 20); do VERIF_SEED=$s VERIF_OUT=$PWD/sweepout timeout 6000 ./check C$i thorough 2>&1 | tail -2 | grep -v "exit 0"; done; done
echo THOROUGH-SWEEP-DONE

"""Common correspondence machinery for the properties that live in the multiplexed world
(C01-C11, C13): running a case on the real code, asking the model, comparing strictly."""
import contextlib
import io
import json

import muxreal
import muxgen

STATELESS = {'map', 'starmap', 'filter', 'flat_map', 'identity', 'do_action', 'assert', 'clip', 'fill_none',
             'ignore', 'err_map', 'err_map_name', 'route'}
WIDTH = muxreal.Builder.WIDTH

TRUSTED_BASE = [
    'Lean 4.33.0 kernel; axioms propext, Classical.choice, Quot.sound only',
    'hand-written model lean/RxModel/{Event,Ops,Split,Tee,Plain,Pipeline,LSplit,Derived}.lean, tied to /repo by the '
    'correspondence check of this run (strict equality of per-input-event output chunks and of the mux traces at internal boundaries)',
    'modelled, not verified: RxPY (Subject, publish, pipe, AutoDetachObserver, built-in map/filter/first/last/take/to_list), '
    'CPython ==/hash/dict order/copy.deepcopy, synchronous list-passing composition of operators',
    'MemoryStore is represented by an index-addressed map Nat -> Option state (its refinement is property C14)',
]
ASSUMPTIONS = [
    'user values: == is an equivalence consistent with hash; no int/bool/float mixing in one compared position; no NaN',
    'typed store arrays: a value the array REJECTS (float into an int state, out-of-range int) is modelled as one mux error with the state unchanged; '
    'values accepted with a conversion (int stored into a float state) are outside the domain: accumulators return values of the seed type',
    'modelled domain: an unhandled OnErrorMux does not reach a stateful operator and the key then continues '
    '(the code reads a cleared slot there); key functions of group_by/split/time_split and terminators do not raise',
    'synchronous execution: what is emitted while source event i is pushed is chunk i',
]


def quiet(f, *a, **kw):
    with contextlib.redirect_stdout(io.StringIO()):
        return f(*a, **kw)


def trunc_ev_chunks(cs):
    out = []
    dead = False
    for c in cs:
        if dead:
            out.append([])
            continue
        cc = []
        for e in c:
            cc.append(e)
            if e[0] == 'x':
                dead = True
                break
        out.append(cc)
    return out


def stage_inputs(term, path='', inp=None):
    """yield (stage, input_label) for every stage, labels as in the model's Pipe.bounds"""
    idx = 0
    prev = inp
    for st in term:
        w = WIDTH.get(st[0], 1)
        here = '%s/%d' % (path, idx)
        yield st, prev
        n = st[0]
        if n in ('group_by', 'split', 'time_split', 'roll'):
            inner = st[3] if n == 'roll' else st[2]
            for x in stage_inputs(inner, here, here + '/in'):
                yield x
        elif n == 'tee':
            for b, bp in enumerate(st[2]):
                for x in stage_inputs(bp, '%s/b%d' % (here, b), prev):
                    yield x
        prev = '%s/%d' % (path, idx + w - 1)
        idx += w


def out_of_domain(term, bounds):
    """an OnErrorMux reaches a stateful operator (the real code then reads a cleared slot)"""
    if not bounds:
        return False
    for st, lab in stage_inputs(term):
        if lab is None or st[0] in STATELESS:
            continue
        tr = bounds.get(lab)
        if tr and any(e[0] == 'e' for e in tr):
            return True
    return False


# ------------------------------------------------------------------------------------------------
# real side
# ------------------------------------------------------------------------------------------------

def real(case):
    k = case['kind']
    if k == 'mux':
        r = quiet(muxreal.run_mux, case['term'], case['items'], bounds=case.get('bounds', True), prelude=case.get('prelude'), share=case.get('share', False), two_stores=case.get('two_stores'))
        r['chunks'] = muxreal.trunc_chunks(r['chunks'])
        return r
    if k == 'raw':
        r = quiet(muxreal.run_raw, case['term'], case['trace'])
        r['chunks'] = trunc_ev_chunks(r['chunks'])
        return r
    if k == 'plain':
        r = quiet(muxreal.run_plain, case['term'], case['items'], prelude=case.get('prelude'), share=case.get('share', False))
        r['chunks'] = muxreal.trunc_chunks(r['chunks'])
        if case.get('tramp'):
            t = quiet(muxreal.run_plain_tramp, case['term'], case['items'])
            r['tramp'] = muxreal.trunc_chunks(t['chunks']) if 'chunks' in t else None
            r['tramp_raised'] = t.get('raised') or t.get('harness_exc')
        return r
    raise ValueError(k)


# ------------------------------------------------------------------------------------------------
# re-subscription: the same pipeline OBJECT subscribed a second time (a new lifetime of the root key in
# the same store on the multiplexed path; a new sequence through the same operator closures on the plain path)
# ------------------------------------------------------------------------------------------------

PRELUDE_ENDS = ('complete', 'complete', 'dispose', 'error')


def add_prelude(case, rng):
    """copy of a mux/plain case that is run as the SECOND subscription of its pipeline object"""
    if case.get('kind') not in ('mux', 'plain') or 'prelude' in case:
        return None
    items = list(case.get('items') or [])
    k = rng.choice([0, 1, 2, 3, len(items)])
    pre = items[:k] if rng.random() < 0.7 else [rng.choice(items) for _ in range(k)] if items else []
    c = dict(case)
    c['prelude'] = {'items': pre, 'end': rng.choice(PRELUDE_ENDS)}
    return c


def add_shared(case, rng):
    """the pipeline of a flat mux/plain case duplicated into the two branches of a tee_map, every stage built once and the SAME
    operator object applied in both branches (and wherever else the same stage term occurs)"""
    if case.get('kind') not in ('mux', 'plain') or case.get('share') or not case.get('term'):
        return None
    if any(s[0] in ('route', 'tee') for s in muxgen.walk(case['term'])):
        return None
    c = dict(case)
    c['term'] = [['tee', rng.choice(['zip', 'combine_latest', 'merge']), [case['term'], case['term']]]]
    c['share'] = True
    c.pop('grouped', None)
    return c


def add_two_stores(case, rng):
    """the pipeline of a mux case cut at a top-level stage boundary, each part under its own state store"""
    if case.get('kind') != 'mux' or len(case.get('term') or []) < 2 or case.get('share') or case.get('prelude'):
        return None
    if any(s[0] == 'route' for s in muxgen.walk(case['term'])):
        return None
    c = dict(case)
    c['two_stores'] = rng.randrange(1, len(case['term']))
    return c


def with_preludes(cases, rng, frac=0.12, share_frac=0.05, stores_frac=0.06):
    """every case, and for a fraction of them additionally the re-subscription variant / the shared-operator variant / the
    two-stores variant"""
    for c in cases:
        yield c
        if rng.random() < stores_frac:
            p = add_two_stores(c, rng)
            if p is not None:
                yield p
        if rng.random() < frac:
            p = add_prelude(c, rng)
            if p is not None:
                yield p
        if rng.random() < share_frac:
            p = add_shared(c, rng)
            if p is not None:
                yield p
        if c.get('kind') == 'plain' and not c.get('prelude') and not c.get('share') and rng.random() < 0.15:
            # the same plain case with a source that pushes from inside the current-thread scheduler (rx.from_)
            t = dict(c)
            t['tramp'] = True
            yield t


def prelude_violation(case, r):
    """oracle for a case with a prelude, judging the real code alone: the second subscription must emit what a
    fresh pipeline object emits on the same items (outputs of a lifetime / of a sequence depend on its own items only)"""
    if 'harness_exc' in r:
        return None
    if case.get('tramp'):
        # judged against the Subject-driven run of the same code: what is emitted while an item is processed does not depend on
        # who pushes the items
        if r.get('tramp') is None or r.get('tramp_raised') or r.get('raised') or has_fatal(r['chunks']) or has_fatal(r['tramp']):
            return None
        for i, (a, b) in enumerate(zip(r['tramp'], r['chunks'])):
            if strict_ne(a, b):
                return ('%s over %s on a plain observable whose source pushes from inside the current-thread scheduler (rx.from_) emits %s '
                        'while item %d is processed; pushed item by item from outside it emits %s'
                        % (json.dumps(case['term'])[:200], case['items'], json.dumps(a)[:200], i - 1, json.dumps(b)[:200]))
        return None
    if case.get('share') and not case.get('prelude'):
        sep = dict(case)
        sep['share'] = False
        f = real(sep)
        if r['chunks'] != f['chunks']:
            for i, (a, b) in enumerate(zip(r['chunks'], f['chunks'])):
                if a != b:
                    return ('shared operator objects: %s over %s with every stage built once and applied at each of its places emits %s while '
                            'item %d is processed; with separately built equal operators it emits %s'
                            % (json.dumps(case['term'])[:200], case['items'], json.dumps(a)[:200], i - 1, json.dumps(b)[:200]))
        return None
    if case.get('two_stores') and not case.get('prelude'):
        one = dict(case)
        del one['two_stores']
        f = real(one)
        if r['chunks'] != f['chunks']:
            for i, (a, b) in enumerate(zip(r['chunks'], f['chunks'])):
                if a != b:
                    return ('two state stores: %s over %s with the stages before position %d and the rest under two with_memory_store in '
                            'sequence emits %s while item %d is processed; under one store it emits %s'
                            % (json.dumps(case['term'])[:200], case['items'], case['two_stores'], json.dumps(a)[:200], i - 1, json.dumps(b)[:200]))
        for lab, tr in sorted((r.get('bounds') or {}).items()):
            w = None if any(e[0] in ('e', 'x') for e in tr) else wf_monitor(tr)
            if w:
                return 'two state stores: at the boundary %s of %s: %s' % (lab, json.dumps(case['term'])[:200], w)
        return None
    if not case.get('prelude'):
        return None
    fresh_case = dict(case)
    del fresh_case['prelude']
    f = real(fresh_case)
    if r['chunks'] != f['chunks']:
        for i, (a, b) in enumerate(zip(r['chunks'], f['chunks'])):
            if a != b:
                return ('re-subscription: after an earlier subscription of the same pipeline object (items %s, ended by %s) '
                        '%s over %s emits %s while item %d is processed; a fresh pipeline object emits %s'
                        % (case['prelude'].get('items'), case['prelude'].get('end'), json.dumps(case['term'])[:200],
                           case['items'], json.dumps(a)[:200], i - 1, json.dumps(b)[:200]))
    if r.get('dead') != f.get('dead'):
        return ('re-subscription: dead letters of the second run %s, of a fresh router %s (pipeline %s, items %s)'
                % (r.get('dead'), f.get('dead'), json.dumps(case['term'])[:200], case['items']))
    return None


def model_cmds(case):
    k = case['kind']
    if k == 'mux':
        return [{'cmd': 'mux', 'pipe': case['term'], 'items': case['items'], 'bounds': True}]
    if k == 'raw':
        return [{'cmd': 'muxtrace', 'pipe': case['term'], 'trace': case['trace'], 'bounds': True}]
    if k == 'plain':
        return [{'cmd': 'plain', 'pipe': case['term'], 'items': case['items']}]
    raise ValueError(k)


def model_result(case, ans):
    a = ans[0]
    if 'error' in a:
        return {'model_error': a['error']}
    k = case['kind']
    if k == 'mux':
        return {'chunks': a['l1'], 'l2': a['l2'], 'bounds': a['bounds']}
    if k == 'raw':
        return {'chunks': trunc_ev_chunks(a['l1']), 'l2': trunc_ev_chunks(a['l2']), 'bounds': a['bounds'], 'wf': a['wf']}
    return {'chunks': a['plain']}


def has_fatal(chunks):
    return any(('x' in o) if isinstance(o, dict) else (o[0] == 'x') for c in chunks for o in c)


def strict_ne(a, b):
    """inequality that tells True from 1 and False from 0 (Python's == does not): compared as canonical JSON text"""
    return json.dumps(a, sort_keys=True) != json.dumps(b, sort_keys=True)


def compare(case, r, m):
    if 'harness_exc' in r:
        return 'real side raised in harness: ' + r['harness_exc']
    if 'model_error' in m or 'model_exc' in m:
        return 'model could not run the case: %s' % (m.get('model_error') or m.get('model_exc'))
    if case['kind'] in ('mux', 'raw'):
        if out_of_domain(case['term'], m.get('bounds')):
            return None
        if r.get('raised'):
            return 'exception escaped through the source on the real code: %s' % r['raised']
    if strict_ne(r['chunks'], m['chunks']):
        for i, (a, b) in enumerate(zip(r['chunks'], m['chunks'])):
            if strict_ne(a, b):
                return 'chunk %d: real=%s model=%s' % (i, json.dumps(a)[:300], json.dumps(b)[:300])
        return 'chunk count: real=%d model=%d' % (len(r['chunks']), len(m['chunks']))
    if case['kind'] in ('mux', 'raw') and m['chunks'] != m['l2']:
        return 'model L1 differs from model L2 (keyed reference): theorem impl_eq_ref would be false here'
    # after an earlier subscription the index counter of group_by goes on where it stopped: inner keys of the second
    # subscription are fresh but not the model's (which starts from 0), so only the outputs are compared there
    if case['kind'] == 'mux' and not has_fatal(r['chunks']) and r.get('bounds') and not case.get('prelude'):
        for lab, tr in r['bounds'].items():
            mt = m['bounds'].get(lab)
            if mt != tr:
                return 'boundary %s: real=%s model=%s' % (lab, json.dumps(tr)[:300], json.dumps(mt)[:300])
    return None


def in_domain(case, m):
    return not out_of_domain(case['term'], (m or {}).get('bounds'))


# ------------------------------------------------------------------------------------------------
# helpers for oracles
# ------------------------------------------------------------------------------------------------

def outs(chunks):
    """flat list of outputs of a chunked run"""
    return [o for c in chunks for o in c]


def items_of(chunks):
    return [o['i'] for c in chunks for o in c if 'i' in o]


def lifetimes(trace):
    """split a flat boundary trace into lifetimes per key: list of (key, [items], closed, position of create)"""
    open_ = {}
    res = []
    for pos, e in enumerate(trace):
        k = tuple(e[1]) if e[0] != 'x' else None
        if e[0] == 'c':
            open_[k] = {'key': list(k), 'items': [], 'closed': False, 'pos': pos, 'errs': 0}
            res.append(open_[k])
        elif e[0] == 'n' and k in open_:
            open_[k]['items'].append(e[2])
        elif e[0] == 'e' and k in open_:
            open_[k]['errs'] += 1
        elif e[0] == 'd' and k in open_:
            open_[k]['closed'] = True
            open_[k]['close_pos'] = pos
            del open_[k]
    return res


def wf_monitor(trace):
    """the protocol monitor of C03 (twin of Rx.wfStep); returns None or a description of the breach"""
    live = []
    for pos, e in enumerate(trace):
        if e[0] == 'x':
            continue
        k = e[1]
        if e[0] == 'c':
            if any(l[0] == k[0] for l in live):
                return 'event %d: create of %s while %s is live on the same slot' % (pos, k, [l for l in live if l[0] == k[0]][0])
            live.append(k)
        else:
            if k not in live:
                return 'event %d: %s for key %s that is not live' % (pos, {'n': 'item', 'd': 'completion', 'e': 'error'}[e[0]], k)
            if e[0] == 'd':
                live.remove(k)
    return None


def wf_closed(trace):
    live = []
    for e in trace:
        if e[0] == 'c':
            live.append(e[1])
        elif e[0] == 'd' and e[1] in live:
            live.remove(e[1])
    return not live


def shrink_candidates(case):
    if 'term' in case:
        for t in muxgen.shrink_term(case['term']):
            c = dict(case)
            c['term'] = t
            yield c
    if 'items' in case:
        for it in muxgen.shrink_items(case['items']):
            c = dict(case)
            c['items'] = it
            yield c
    if 'trace' in case:
        tr = case['trace']
        for i in range(len(tr)):
            if tr[i][0] == 'n':
                c = dict(case)
                c['trace'] = tr[:i] + tr[i + 1:]
                yield c


def tags(case, r):
    t = ['kind=' + case['kind']]
    term = case.get('term') or []
    names = set(s[0] for s in muxgen.walk(term))
    t += ['op=' + n for n in sorted(names)]
    t.append('depth=%d' % muxgen.depth_of(term))
    n = len(case.get('items') or case.get('trace') or [])
    t.append('len=%s' % ('0' if n == 0 else '1-3' if n <= 3 else '4-10' if n <= 10 else '11+'))
    if isinstance(r, dict) and r.get('chunks') and has_fatal(r['chunks']):
        t.append('fatal')
    return t


def tail_label(term, path=''):
    """label of the output boundary of the last primitive stage of a pipeline"""
    idx = 0
    for st in term:
        idx += WIDTH.get(st[0], 1)
    return '%s/%d' % (path, idx - 1) if term else None


def group_outputs(case, r):
    """for a case whose term is [group_by f inner] (inner non-empty): list of (group items, outputs of that group)
    taken from the real boundary traces at the head and tail of the inner pipeline"""
    t = case['term']
    if not (len(t) == 1 and t[0][0] in ('group_by', 'split', 'roll', 'time_split') and t[0][-1]) or not r.get('bounds'):
        return None
    head = r['bounds'].get('/0/in')
    tail = r['bounds'].get(tail_label(t[0][-1], '/0'))
    if head is None or tail is None:
        return None
    if t[0][0] == 'group_by':
        hl = {tuple(l['key']): l for l in lifetimes(head)}
        tl = {tuple(l['key']): l for l in lifetimes(tail)}
        return [(hl[k]['items'], tl.get(k, {'items': None})['items']) for k in hl]
    # contexts that reuse inner keys: the n-th lifetime of a key at the head is the n-th lifetime of that key at the tail
    seen, tls = {}, {}
    for l in lifetimes(tail):
        tls.setdefault(tuple(l['key']), []).append(l)
    res = []
    for l in lifetimes(head):
        k = tuple(l['key'])
        n = seen.get(k, 0)
        seen[k] = n + 1
        tl = tls.get(k, [])
        res.append((l['items'], tl[n]['items'] if n < len(tl) else None))
    return res


# ------------------------------------------------------------------------------------------------
# feedback loops: a subscriber that pushes a follow-up item into the source from inside its on_next (re-entrant schedule)
# ------------------------------------------------------------------------------------------------

FEEDBACK_TERMS = [[['scan', ['add'], 0, False, None]], [['count', False]], [['map', ['add', 1]], ['scan', ['add'], 0, False, None]],
                  [['sum', None, False]], [['scan', ['max'], 0, False, None]], [['map', ['mul', 2]]]]


def feedback_cases(tier, rng, plain_share=0.5):
    for _ in range({'quick': 24, 'thorough': 200, 'search': 12}[tier]):
        items = [rng.randrange(1, 9) for _ in range(rng.choice([2, 3, 5]))]
        yield {'kind': 'feedback', 'term': rng.choice(FEEDBACK_TERMS), 'items': items, 'after': rng.randrange(len(items)),
               'fb_item': rng.choice([10, 100, 7]), 'plain': rng.random() < plain_share, 'no_model': True}


def feedback_real(case):
    return quiet(muxreal.run_feedback, case['term'], case['items'], case['after'], case['fb_item'], plain=case['plain'])


def feedback_violation(case, r):
    """every output is emitted while the push that determines it is the innermost one in progress, and its value is what the list
    semantics give for the items in the order they were pushed (the follow-up item comes right after the item whose output set it off)"""
    import pyref
    from catalog import dec as _dec, enc as _enc
    if 'harness_exc' in r:
        return 'real code raised: ' + r['harness_exc']
    if r.get('raised') or r.get('errors'):
        return None
    try:
        ch, fin = pyref.ref_pipe(case['term'], [_dec(x) for x in r['pushes']])
    except pyref.NotCovered:
        return None
    if case['term'][-1][0] == 'sum':
        return _feedback_sum(case, r)
    want = [[_enc(x), j] for j, c in enumerate(ch) for x in c]
    got = [o for o in r['outs'] if o[1] is not None]
    if strict_ne(got, want) or len(got) != len(r['outs']) - len(fin):
        return ('%s%s, items pushed %s (the subscriber pushes %s from inside the on_next of output #%d): outputs [value, push in progress] %s, '
                'the list semantics of the pushed sequence give %s' % ('plain ' if case['plain'] else '', case['term'], r['pushes'], case['fb_item'],
                                                                     case['after'], str(r['outs'])[:300], str(want)[:300]))
    return None


def _feedback_sum(case, r):
    from catalog import dec as _dec
    xs = [_dec(x) for x in r['pushes']]
    acc, want = 0, []
    for j, x in enumerate(xs):
        acc = acc + x
        want.append([float(acc), j])
    got = [[float(_dec(o[0])), o[1]] for o in r['outs']]
    if got != want:
        return ('%ssum over the pushed sequence %s (feedback after output #%d): outputs [value, push in progress] %s, running sums %s'
                % ('plain ' if case['plain'] else '', r['pushes'], case['after'], str(got)[:300], str(want)[:300]))
    return None

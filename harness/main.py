"""./check <Cxx> quick|thorough   |   ./check --replay <path>   |   ./check --pin <Cxx>

Exit 0: property held on everything explored.  Exit 1 + "VIOLATION property=<id> replay=<path>".
Exit 2: infrastructure failure (never a violation).
"""
import importlib
import json
import multiprocessing as mp
import os
import sys
import time
import traceback

sys.path.insert(0, os.path.dirname(os.path.abspath(__file__)))
import common as C  # noqa: E402


def load_prop(prop):
    return importlib.import_module('props.' + prop.lower())


# -----------------------------------------------------------------------------------------------
# worker: runs one shard of cases on the real code and on the model
# -----------------------------------------------------------------------------------------------

def _safe_real(mod, case):
    try:
        return mod.real(case)
    except Exception as e:  # the real code raised where the harness did not expect it
        return {'harness_exc': type(e).__name__ + ': ' + str(e)[:200]}


BATCH_CASES = 48          # cases per driver invocation
BATCH_BYTES = 24 << 20    # … or this many bytes of model commands, whichever comes first


def _flush(mod, out, batch, use_model):
    """run the model on one batch of (case, real, cmds) and judge every case of the batch"""
    cmds, spans = [], []
    for _, _, cs in batch:
        spans.append((len(cmds), len(cmds) + len(cs)))
        cmds.extend(cs)
    answers = None
    if use_model:
        try:
            answers = C.run_driver(cmds)
        except Exception as e:
            out['driver_error'] = str(e)[:300]
    for (case, r, _), (a, b) in zip(batch, spans):
        out['n'] += 1
        for k in mod.tags(case, r):
            out['stats'][k] = out['stats'].get(k, 0) + 1
        if mod.nontrivial(case, r):
            out['nontrivial'].add(C.case_hash(case))
        v = None
        try:
            v = mod.oracle(case, r)
        except Exception as e:
            v = 'oracle-exception: %s' % e
        if v == 'precondition-not-met':
            out['precond'] += 1
            v = None
        if v:
            out['violations'].append((case, r, v))
        if answers is not None:
            try:
                m = mod.model_result(case, answers[a:b])
            except Exception as e:
                m = {'model_exc': str(e)[:200]}
            d = mod.compare(case, r, m)
            if d:
                out['mismatch'].append((case, r, m, d))


def run_shard(args):
    """one block of cases: real code in-process, model through the driver, in bounded batches so that
    the memory of a worker does not grow with the size of the block"""
    prop, cases, use_model = args
    C.ensure_repo_on_path()
    mod = load_prop(prop)
    out = {'n': 0, 'nontrivial': set(), 'mismatch': [], 'violations': [], 'stats': {}, 'precond': 0,
           'model_errors': 0}
    batch, size = [], 0
    for case in cases:
        r = _safe_real(mod, case)
        cs = [json.dumps(c, separators=(',', ':')) for c in mod.model_cmds(case)] if use_model else []
        batch.append((case, r, cs))
        size += sum(len(c) for c in cs)
        if len(batch) >= BATCH_CASES or size >= BATCH_BYTES:
            _flush(mod, out, batch, use_model)
            batch, size = [], 0
    if batch:
        _flush(mod, out, batch, use_model)
    out['nontrivial'] = list(out['nontrivial'])
    return out


_BLOCKS = None


def _run_block(args):
    prop, i, use_model = args
    return run_shard((prop, _BLOCKS[i], use_model))


def run_cases(prop, cases, use_model=True):
    """contiguous blocks (page locality under fork), several per worker (load balance); a worker that dies
    (e.g. killed by the OOM killer) raises BrokenProcessPool, which the caller reports as exit 2"""
    global _BLOCKS
    import concurrent.futures as cf
    import gc
    n = max(1, min(C.NPROC, len(cases) // 4 or 1))
    if not cases:
        return []
    if n == 1:
        return [run_shard((prop, cases, use_model))]
    nb = min(len(cases), n * 6)
    step = (len(cases) + nb - 1) // nb
    _BLOCKS = [cases[i:i + step] for i in range(0, len(cases), step)]
    gc.collect()
    gc.freeze()
    ctx = mp.get_context('fork')
    try:
        with cf.ProcessPoolExecutor(max_workers=n, mp_context=ctx) as pool:
            return list(pool.map(_run_block, [(prop, i, use_model) for i in range(len(_BLOCKS))]))
    finally:
        _BLOCKS = None
        gc.unfreeze()


def shrink(mod, case, pred, budget_s=20):
    """greedy delta debugging on the real code only; pred(case) -> violation text or None"""
    t0 = time.time()
    cur = case
    improved = True
    while improved and time.time() - t0 < budget_s:
        improved = False
        for cand in mod.shrink_candidates(cur):
            if time.time() - t0 > budget_s:
                break
            try:
                if pred(cand):
                    cur = cand
                    improved = True
                    break
            except Exception:
                continue
    return cur


def real_violation(mod, case):
    r = _safe_real(mod, case)
    try:
        v = mod.oracle(case, r)
    except Exception as e:      # outputs of a shape the oracle cannot judge: never produced by code the property holds for
        v = 'oracle-exception: %s' % e
    if v and v != 'precondition-not-met':
        return v
    return None


def known_match(mod, prop, case, text):
    for f in C.load_known().get('findings', []):
        if f.get('property') != prop:
            continue
        m = getattr(mod, 'KNOWN_MATCHERS', {}).get(f.get('matcher'))
        if m is not None:
            try:
                if m(case, text):
                    return f
            except Exception:
                pass
    return None


# -----------------------------------------------------------------------------------------------

def check(prop, tier):
    t0 = time.time()
    seed = int(os.environ.get('VERIF_SEED', '0'))
    tier = os.environ.get('VERIF_TIER', tier)
    C.ensure_repo_on_path()
    mod = load_prop(prop)
    ev = {'property_id': prop, 'tier': tier, 'seed': seed, 'level': 'proof', 'violations': 0}
    lines = []

    # 1. build + audits ------------------------------------------------------------------------
    ok_build, bt, blog = C.lake_build()
    gen_info = None
    broken = []          # proof obligations / correspondence that no longer check
    obligations = discharged = 0
    details = []
    static_hits = []
    if not ok_build:
        broken.append('lake build failed: ' + blog[:400])
        reg = C.load_theorems().get(prop, {})
        obligations = len(reg.get('theorems', []))
    else:
        static_hits = C.static_audit()
        if static_hits:
            broken.append('forbidden tokens: ' + ', '.join(static_hits[:5]))
        gen_ok, gen_info, gen_path = C.gen_audit(prop)
        if not gen_ok:
            broken.append('generated model: ' + '; '.join((gen_info or {}).get('recheck_log') or [str((gen_info or {}).get('error'))]))
        obligations, discharged, details, raw = C.axioms_audit(prop, gen_path)
        for d in details:
            if not d['ok']:
                broken.append('theorem %s: %s' % (d['name'], d.get('why')))
        if obligations == 0:
            broken.append('no theorem registered')
    leancheck = None
    if ok_build and tier == 'thorough' and not broken:
        leancheck = C.leanchecker(C.load_theorems().get(prop, {}).get('modules', []))
        if leancheck and not leancheck['ok']:
            broken.append('leanchecker: ' + leancheck['log'][:300])

    # 2. cases: corpus, sweeps, random -----------------------------------------------------------
    rng = C.rng_for(prop, tier, seed)
    cases = list(mod.cases(tier, rng))
    results = run_cases(prop, cases, use_model=ok_build)
    n = sum(r['n'] for r in results)
    nontrivial = set()
    stats = {}
    mism, viols = [], []
    precond = 0
    for r in results:
        nontrivial.update(r['nontrivial'])
        for k, v in r['stats'].items():
            stats[k] = stats.get(k, 0) + v
        mism.extend(r['mismatch'])
        viols.extend(r['violations'])
        precond += r['precond']
        if 'driver_error' in r:
            broken.append('driver: ' + r['driver_error'])
    if mism:
        broken.append('correspondence: %d of %d cases differ (first: %s)' % (len(mism), n, mism[0][3][:300]))

    # 3. verdicts ----------------------------------------------------------------------------------
    exit_code = 0
    reported = set()

    def report_violation(case, text, extra=None):
        nonlocal exit_code
        pre = mod.violation_class(case, text) if hasattr(mod, 'violation_class') else text[:80]
        if pre in reported or len([x for x in reported if not x.startswith('K')]) >= 4:
            return
        small = shrink(mod, case, lambda c: real_violation(mod, c), budget_s=10)
        text2 = real_violation(mod, small) or text
        kf = known_match(mod, prop, small, text2)
        if kf is not None:
            key = 'K' + kf['id']
            if key not in reported:
                reported.add(key)
                lines.append('KNOWN-FINDING: property=%s %s' % (prop, kf['what']))
            return
        key = mod.violation_class(small, text2) if hasattr(mod, 'violation_class') else text2[:80]
        if key in reported:
            return
        reported.add(key)
        reported.add(pre)
        payload = {'property': prop, 'case': small, 'original_case': case, 'observed': text2,
                   'oracle': mod.ORACLE_DOC, 'seed': seed, 'tier': tier}
        if extra:
            payload.update(extra)
        path = C.write_replay(prop, payload)
        lines.append('VIOLATION property=%s replay=%s' % (prop, path))
        exit_code = 1

    for case, r, v in viols[:40]:
        report_violation(case, v)
        if len(reported) >= 6:
            break

    if broken and exit_code == 0:
        # proof obligation or correspondence broken: search for a failing input on the real code
        found = False
        for case, r, m, d in mism[:200]:
            v = real_violation(mod, case)
            if v:
                report_violation(case, v, {'broken': broken})
                found = exit_code == 1
                if found:
                    break
        if not found:
            t1 = time.time()
            budget = 60 if tier == 'quick' else 300
            k = 1
            while not found and time.time() - t1 < budget:
                rng2 = C.rng_for(prop, 'search', seed * 1000 + k)
                extra_cases = list(mod.cases('search', rng2))
                for r in run_cases(prop, extra_cases, use_model=False):
                    for case, rr, v in r['violations'][:5]:
                        report_violation(case, v, {'broken': broken})
                        if exit_code == 1:
                            found = True
                            break
                    if found:
                        break
                k += 1
                if k > 40:
                    break
        if not found and exit_code == 0:
            only_known = all(x.startswith('K') for x in reported) and reported and not [b for b in broken if not b.startswith('correspondence')]
            payload = {'property': prop, 'broken': broken,
                       'first_mismatch': ({'case': mism[0][0], 'real': mism[0][1], 'model': mism[0][2],
                                           'diff': mism[0][3]} if mism else None),
                       'note': 'proof obligation or model/code correspondence no longer checks; '
                               'no input violating the property itself was found on the real code',
                       'seed': seed, 'tier': tier}
            path = C.write_replay(prop, payload)
            lines.append('VIOLATION property=%s replay=%s no-failing-input-found' % (prop, path))
            exit_code = 1

    # 4. evidence ------------------------------------------------------------------------------------
    samples = [{'case': c} for c in cases[:2]] + [{'theorem': d['name'], 'axioms': d.get('axioms')} for d in details[:3]]
    ev['violations'] = sum(1 for l in lines if l.startswith('VIOLATION'))
    ev['wall_s'] = round(time.time() - t0, 2)
    ev['coverage'] = {
        'obligations': max(obligations, 1),
        'discharged': discharged,
        'checker_cmd': 'cd /verif/lean && lake build RxModel Driver rxdriver && lake env lean ../out/audit/%s.lean'
                       ' (#check + #print axioms of every registered theorem, compared with theorems.json)%s'
                       % (prop, '; lake env leanchecker <modules>' if leancheck else ''),
        'trusted_base': mod.TRUSTED_BASE,
        'theorems': details,
        'evaluations': n,
        'distinct_nontrivial': len(nontrivial),
        'rule': mod.RULE,
        'samples': samples,
        'traces_validated_against_impl': n - len(mism) if ok_build else 0,
        'correspondence_mismatches': len(mism),
        'oracle_violations_raw': len(viols),
        'precondition_not_met': precond,
        'distribution': dict(sorted(stats.items())),
        'static_audit_hits': static_hits,
        'build_ok': ok_build, 'build_s': round(bt, 1),
        'leanchecker': leancheck,
        'generated_model': gen_info,
        'source_sha': C.sha_files(mod.ANCHORS),
        'source_root': C.REPO,
        'known_findings_reported': sorted(x[1:] for x in reported if x.startswith('K')),
        'exhaustive': False,
    }
    ev['assumptions'] = mod.ASSUMPTIONS
    C.write_evidence(prop, ev)
    for l in lines:
        print(l)
    print('%s %s seed=%d: %d cases (%d distinct non-trivial), %d/%d theorems, %d mismatches, %d oracle violations, %.1fs -> exit %d'
          % (prop, tier, seed, n, len(nontrivial), discharged, obligations, len(mism), len(viols), time.time() - t0, exit_code))
    return exit_code


def replay(path):
    payload = json.load(open(path))
    prop = payload['property']
    C.ensure_repo_on_path()
    mod = load_prop(prop)
    if payload.get('case') is None:
        print('replay %s: no concrete failing input was found; broken obligations: %s' % (path, payload.get('broken')))
        return 1
    case = payload['case']
    r = _safe_real(mod, case)
    try:
        v = mod.oracle(case, r)
    except Exception as e:
        v = 'oracle-exception: %s' % e
    print('case:', json.dumps(case)[:2000])
    print('real:', json.dumps(r, default=str)[:2000])
    if v and v != 'precondition-not-met':
        print('VIOLATION property=%s replay=%s' % (prop, path))
        print('observed:', v)
        return 1
    print('property holds on this case now')
    return 0


def pin(prop):
    """development helper: write the current pretty-printed statements into theorems.json"""
    reg = C.load_theorems()
    ok, _, log = C.lake_build()
    if not ok:
        print(log)
        return 2
    for t in reg[prop]['theorems']:
        t.pop('statement', None)
    json.dump(reg, open(os.path.join(C.ROOT, 'theorems.json'), 'w'), indent=1)
    _, _, details, raw = C.axioms_audit(prop)
    for t, d in zip(reg[prop]['theorems'], details):
        if 'statement' not in d:
            print('cannot pin', t['name'], d)
            print(raw[:3000])
            return 2
        t['statement'] = d['statement']
        print(t['name'], d.get('axioms'))
    json.dump(reg, open(os.path.join(C.ROOT, 'theorems.json'), 'w'), indent=1)
    return 0


def main(argv):
    try:
        if len(argv) >= 2 and argv[0] == '--replay':
            return replay(argv[1])
        if len(argv) >= 2 and argv[0] == '--pin':
            return pin(argv[1])
        if len(argv) < 1:
            print(__doc__)
            return 2
        prop = argv[0]
        tier = argv[1] if len(argv) > 1 else 'quick'
        return check(prop, tier)
    except SystemExit:
        raise
    except Exception:
        traceback.print_exc()
        return 2


if __name__ == '__main__':
    sys.exit(main(sys.argv[1:]))

"""Building and driving REAL rxsci pipelines from the JSON pipeline terms of the line protocol."""
import collections
import json as _json
import zlib
import rx
import rx.operators as rxops
from rx.subject import Subject
import rxsci as rs
import rxsci.operators as rsops   # noqa: F401

from catalog import enc, dec, fn1, fn2, ASSERT1


def keyl(k):
    """(i, (j, (0,))) -> [i, j, 0]"""
    out = []
    while isinstance(k, tuple) and len(k) == 2 and isinstance(k[1], tuple):
        out.append(k[0])
        k = k[1]
    out.append(k[0])
    return out


def keyt(l):
    k = (l[-1],)
    for i in reversed(l[:-1]):
        k = (i, k)
    return k


def enc_ev(i):
    t = type(i)
    if t is rs.OnNextMux:
        return ['n', keyl(i.key), enc(i.item)]
    if t is rs.OnCreateMux:
        return ['c', keyl(i.key)]
    if t is rs.OnCompletedMux:
        return ['d', keyl(i.key)]
    if t is rs.OnErrorMux:
        return ['e', keyl(i.key), type(i.error).__name__]
    return None


def spy(label, log):
    """ordinary pass-through MuxObservable operator that records the mux events it sees"""
    def _spy(source):
        def on_subscribe(observer, scheduler):
            def on_next(i):
                e = enc_ev(i)
                if e is not None:
                    log.setdefault(label, []).append(e)
                observer.on_next(i)

            def on_error(e):
                log.setdefault(label, []).append(['x', type(e).__name__])
                observer.on_error(e)

            return source.subscribe(on_next=on_next, on_error=on_error,
                                    on_completed=observer.on_completed, scheduler=scheduler)
        return rs.MuxObservable(on_subscribe)
    return _spy


class Builder(object):
    """term -> list of rx operators; with `log` set, a spy is placed at every boundary that the
    model's `Pipe.bounds` reports (labels follow the *primitive* stage numbering of the model)."""

    # number of primitive stages each named operator expands to in the model
    WIDTH = {'mean': 2, 'variance': 2, 'stddev': 3, 'fvariance': 2, 'fstddev': 3, 'duc': 3}

    def __init__(self, log=None, dead=None, mux=True, share=False):
        # share: stages with the same term are built ONCE and the same operator object is applied at every place
        # where the term occurs (an operator object is a value: using it twice must equal using two equal ones)
        self.share = share
        self.cache = {}
        self.salt = 0
        self.log = log
        self.dead = dead        # list receiving dead letters of error routers
        self.mux = mux
        self.late = []          # dead-letter subscriptions to perform after the data stream is subscribed
        self.dead_subs = []     # every dead-letter subscription function (performed again before a re-subscription)
        self.dead_disp = []     # disposables of the dead-letter subscriptions made so far
        self.shared = {'log': [], 'cur': None}      # what the effectful user functions of this pipeline share

    def pipe(self, term, path='', start=0):
        if path == '' and self.salt == 0:
            self.salt = zlib.crc32(_json.dumps(term).encode()) % 7     # deterministic per pipeline: varies the seed-factory flavour
        ops = []
        idx = start
        for st in term:
            w = self.WIDTH.get(st[0], 1)
            here = '%s/%d' % (path, idx + w - 1)      # label of the last primitive stage of this operator
            ops.extend(self.stage(st, '%s/%d' % (path, idx)))
            if self.log is not None and self.mux:
                ops.append(spy(here, self.log))
            idx += w
        return ops

    def stage(self, st, here):
        if self.share and st[0] not in ('group_by', 'roll', 'split', 'time_split', 'tee', 'route'):
            import json
            k = json.dumps(st)
            if k not in self.cache:
                self.cache[k] = self.stage_(st, here)
            return self.cache[k]
        return self.stage_(st, here)

    def stage_(self, st, here):
        n = st[0]
        if n == 'map' and st[1] and st[1][0] in ('peek_log', 'reg_list'):
            # user functions with an effect that another stage of the SAME pipeline object reads (one shared dict per Builder)
            sh = self.shared
            if st[1][0] == 'peek_log':
                return [rs.ops.map(lambda x: (x, sh['log'][-1] if sh['log'] else None))]

            def reg(l):
                sh['cur'] = l
                return l
            return [rs.ops.map(reg)]
        if n == 'map':
            return [rs.ops.map(fn1(st[1]))]
        if n == 'starmap':
            return [rs.ops.starmap(fn2(st[1]))]
        if n == 'filter':
            return [rs.ops.filter(fn1(st[1]))]
        if n == 'flat_map':
            return [rs.ops.flat_map()]
        if n == 'scan':
            seed = dec(st[2])
            term = fn1(st[4]) if st[4] is not None else None
            if isinstance(seed, list) and st[5:] == ['factory']:
                # a seed FACTORY: the class itself, a functools.partial, or an object with __call__ (all are callable(seed))
                import functools

                class ListFactory(object):
                    def __call__(self):
                        return []
                fac = [list, functools.partial(list), ListFactory()][(zlib.crc32(_json.dumps(st).encode()) + self.salt) % 3]
                return [rs.ops.scan(fn2(st[1]), seed=fac, reduce=st[3], terminator=term)]
            return [rs.ops.scan(fn2(st[1]), seed=seed, reduce=st[3], terminator=term)]
        if n == 'count':
            return [rs.ops.count(reduce=st[1])]
        if n in ('sum', 'mean', 'min', 'max', 'variance', 'stddev'):
            f = getattr(rs.math, n)
            return [f(key_mapper=fn1(st[1]), reduce=st[2])] if st[1] is not None else [f(reduce=st[2])]
        if n in ('fvariance', 'fstddev'):
            f = getattr(rs.math.formal, n[1:])
            return [f(key_mapper=fn1(st[1]), reduce=st[2])] if st[1] is not None else [f(reduce=st[2])]
        if n == 'first':
            return [rs.ops.first()]
        if n == 'last':
            return [rs.ops.last()]
        if n == 'take':
            return [rs.ops.take(st[1])]
        if n == 'distinct':
            return [rs.ops.distinct(fn1(st[1]) if st[1] is not None else None)]
        if n == 'duc':
            return [rs.ops.distinct_until_changed(fn1(st[1]) if st[1] is not None else None)]
        if n == 'lag':
            return [rs.data.lag(st[1])]
        if n == 'pad_start':
            return [rs.data.pad_start(st[1], dec(st[2]))]
        if n == 'pad_end':
            return [rs.data.pad_end(st[1], dec(st[2]))]
        if n == 'start_with':
            # the padding in each of the forms the operator iterates over: a list, a tuple, a deque, a re-iterable object
            pad = [dec(v) for v in st[1]]

            class Padding(object):
                def __init__(self, l):
                    self.l = l

                def __iter__(self):
                    return iter(list(self.l))
            form = [list, tuple, collections.deque, Padding][(zlib.crc32(_json.dumps(st).encode()) + self.salt) % 4]
            return [rs.ops.start_with(form(pad))]
        if n == 'batch':
            return [rs.data.batch(st[1])]
        if n == 'to_list':
            return [rs.data.to_list()]
        if n == 'clip':
            return [rs.data.clip(dec(st[1]), dec(st[2]))]
        if n == 'fill_none':
            return [rs.data.fill_none(dec(st[1]))]
        if n == 'identity':
            return [rs.ops.identity()]
        if n == 'do_action' and len(st) > 1:
            sh = self.shared
            if st[1] == 'log':            # the action records the item
                return [rs.ops.do_action(on_next=lambda i: sh['log'].append(i))]
            if st[1] == 'grow':           # the action extends the list the item was taken from (a work list)
                def grow(v):
                    if sh.get('cur') is not None and v * 2 < st[2]:
                        sh['cur'].append(v * 2)
                return [rs.ops.do_action(on_next=grow)]
        if n == 'do_action':
            return [rs.ops.do_action(on_next=lambda i: None)]
        if n == 'assert':
            return [rs.ops.assert_(fn1(st[1]))]
        if n == 'assert1':
            return [rs.ops.assert_1(ASSERT1[st[1]])]
        if n == 'ignore':
            return [rs.error.ignore()]
        if n == 'err_map':
            v = st[1]
            return [rs.error.map(lambda e: dec(v))]
        if n == 'err_map_name':
            return [rs.error.map(lambda e: type(e).__name__)]
        if n == 'route':
            errors, route = rs.error.create_error_router()
            dead = self.dead if self.dead is not None else []
            def sub():
                self.dead_disp.append(errors.subscribe(on_next=lambda e: dead.append(type(e).__name__),
                                                       on_completed=lambda: dead.append('<completed>')))
            self.dead_subs.append(sub)
            if st[1:] == ['late']:
                self.late.append(sub)
            else:
                sub()
            return [route()]
        if n in ('group_by', 'roll', 'split', 'time_split'):
            inner = []
            if self.log is not None:
                inner.append(spy(here + '/in', self.log))
            # the inner pipeline is given as a Python list, and the SAME list object has been used before to build another operator
            # (an aggregation shared by two groupings): the caller's list is an argument, not scratch space
            if n == 'group_by':
                inner += self.pipe(st[2], here)
                lst = inner or [rs.ops.identity()]
                rs.ops.group_by(lambda i: 0, lst)
                return [rs.ops.group_by(fn1(st[1]), lst)]
            if n == 'roll':
                inner += self.pipe(st[3], here)
                lst = inner or [rs.ops.identity()]
                rs.data.roll(st[1] + 1, st[2], lst)
                return [rs.data.roll(st[1], st[2], lst)]
            if n == 'split':
                inner += self.pipe(st[2], here)
                lst = inner or [rs.ops.identity()]
                rs.data.split(lambda i: 0, lst)
                return [rs.data.split(fn1(st[1]), lst)]
            cfg = st[1]
            inner += self.pipe(st[2], here)
            closing = fn1(cfg['closing']) if cfg.get('closing') is not None else None
            if cfg.get('datetime'):
                from datetime import datetime, timedelta, timezone
                base = datetime(2020, 1, 1, tzinfo=timezone.utc)
                tf = fn1(cfg['time'])
                # 'ms': one model time unit is 100 ms (timestamps and timeouts with sub-second parts; datetime/timedelta
                # arithmetic is exact in microseconds, so the decisions are those of the integer timeline)
                unit = 0.1 if cfg['datetime'] == 'ms' else 1
                return [rs.data.time_split(
                    time_mapper=lambda i: base + timedelta(milliseconds=1000 * unit * tf(i)),
                    active_timeout=timedelta(milliseconds=1000 * unit * cfg['active']) if cfg.get('active') is not None else None,
                    inactive_timeout=timedelta(milliseconds=1000 * unit * cfg['inactive']) if cfg.get('inactive') is not None else None,
                    closing_mapper=closing, include_closing_item=cfg.get('include', True),
                    pipeline=inner or [rs.ops.identity()])]
            return [rs.data.time_split(
                time_mapper=fn1(cfg['time']), active_timeout=cfg.get('active'),
                inactive_timeout=cfg.get('inactive'), closing_mapper=closing,
                include_closing_item=cfg.get('include', True), pipeline=inner or [rs.ops.identity()])]
        if n == 'tee':
            branches = []
            for b, bp in enumerate(st[2]):
                ops = self.pipe(bp, '%s/b%d' % (here, b))
                branches.append(ops or [rs.ops.identity()])
            rs.ops.tee_map(*branches, join='merge')     # the same branch lists used for another tee_map before
            return [rs.ops.tee_map(*branches, join=st[1])]
        raise ValueError('stage %r' % (st,))


def enc_out(kind, v):
    return {kind: v}


class ResubSource(object):
    """a cold source that hands every subscription its own Subject (so that the SAME pipeline object can be
    subscribed again after an earlier subscription completed, failed or was disposed)"""

    def __init__(self):
        self.subject = None

        def subscribe(observer, scheduler=None):
            self.subject = Subject()
            return self.subject.subscribe(observer, scheduler=scheduler)
        self.observable = rx.create(subscribe)


def run_prelude(obs, source, prelude):
    """an earlier subscription of the same observable object: feed `items`, then end it as requested"""
    source.subject = None
    d = obs.subscribe(on_next=lambda i: None, on_error=lambda e: None, on_completed=lambda: None)
    s = source.subject or Subject()      # an operator such as RxPY's take(0) never subscribes its source
    try:
        for it in prelude.get('items', []):
            s.on_next(dec(it))
        end = prelude.get('end', 'complete')
        if end == 'complete':
            s.on_completed()
        elif end == 'error':
            s.on_error(ValueError('source failed'))
        d.dispose()
    except Exception:       # an exception escaping through the source ends the earlier subscription as well
        try:
            d.dispose()
        except Exception:
            pass


def run_mux(term, items, bounds=False, prelude=None, share=False, two_stores=None):
    """Real run of `with_memory_store(pipeline)` on a plain source driven item by item.
    Returns chunks [subscription, item 0.., completion] of outputs as the model encodes them,
    boundary logs, dead letters.  With `prelude`, the same observable object has been subscribed once
    before (and that subscription completed / failed / was disposed)."""
    log = {} if bounds else None
    dead = []
    b = Builder(log=log, dead=dead, share=share)
    if two_stores:
        # the pipeline cut in two, each half under its own with_memory_store, both inside one multiplex: the events that leave the
        # first store enter the second one (which must bind them to ITS store)
        k = two_stores
        off = sum(Builder.WIDTH.get(st[0], 1) for st in term[:k])
        a, c = b.pipe(term[:k]), b.pipe(term[k:], start=off)
        ops = None
        wrap = rs.ops.multiplex(rx.pipe(rs.state.with_memory_store(pipeline=a or [rs.ops.identity()]),
                                        rs.state.with_memory_store(pipeline=c or [rs.ops.identity()])))
    else:
        ops = b.pipe(term)
        wrap = rs.state.with_memory_store(pipeline=ops)
    if prelude is not None:
        rsrc = ResubSource()
        obs = rsrc.observable.pipe(wrap)
        for sub in b.late:
            sub()
        run_prelude(obs, rsrc, prelude)
        for d in b.dead_disp:
            d.dispose()
        del b.dead_disp[:]
        if log is not None:
            log.clear()
        del dead[:]
        for sub in b.dead_subs:
            if sub not in b.late:
                sub()
    cur = []
    state = {'stopped': False}

    def on_next(x):
        cur.append({'i': enc(x)})

    def on_error(e):
        cur.append({'x': type(e).__name__})
        state['stopped'] = True

    def on_completed():
        state['stopped'] = True

    if prelude is not None:
        rsrc.subject = None
        obs.subscribe(on_next=on_next, on_error=on_error, on_completed=on_completed)
        src = rsrc.subject or Subject()
    else:
        src = Subject()
        src.pipe(wrap).subscribe(
            on_next=on_next, on_error=on_error, on_completed=on_completed)
    for sub in b.late:
        sub()
    chunks = [list(cur)]
    del cur[:]
    raised = None
    for it in items:
        try:
            src.on_next(dec(it))
        except Exception as e:     # exception escaping through the source: outside the modelled domain
            raised = type(e).__name__
            chunks.append(list(cur))
            del cur[:]
            break
        chunks.append(list(cur))
        del cur[:]
    if raised is None:
        try:
            src.on_completed()
        except Exception as e:
            raised = type(e).__name__
        chunks.append(list(cur))
    while len(chunks) < len(items) + 2:
        chunks.append([])
    return {'chunks': chunks, 'bounds': log, 'dead': dead, 'raised': raised}


def run_sources(pipes, sched):
    """`with_memory_store(sources=[...])`: several hot mux sources sharing one store.  sched = list of steps ['sub', k] (subscribe
    output k), ['push', k, v], ['done', k]; returns one chunk of outputs [{'o': k, 'i': v}] per step."""
    subjects = [Subject() for _ in pipes]
    outs = rs.state.with_memory_store(sources=[sj.pipe(rs.ops.mux_observable()) for sj in subjects])
    cur = []
    chunks = []
    raised = None

    def rec(k):
        return dict(on_next=lambda x: cur.append({'o': k, 'i': enc(x)}), on_error=lambda e: cur.append({'o': k, 'x': type(e).__name__}),
                    on_completed=lambda: None)

    for step in sched:
        try:
            if step[0] == 'sub':
                k = step[1]
                b = Builder()
                outs[k].pipe(*(b.pipe(pipes[k]) + [rs.ops.demux_observable()])).subscribe(**rec(k))
            elif step[0] == 'push':
                subjects[step[1]].on_next(dec(step[2]))
            else:
                subjects[step[1]].on_completed()
        except Exception as e:
            raised = type(e).__name__
            chunks.append(list(cur))
            break
        chunks.append(list(cur))
        del cur[:]
    while len(chunks) < len(sched):
        chunks.append([])
    return {'chunks': chunks, 'raised': raised}


def run_feedback(term, items, fb_after, fb_item, plain=False):
    """A subscriber that reacts to the `fb_after`-th output by pushing `fb_item` into the source at once (a feedback loop through a
    Subject: the push happens inside the on_next of the output).  Every output is attributed to the innermost push in progress."""
    b = Builder(mux=not plain)
    ops = b.pipe(term)
    src = Subject()
    obs = src.pipe(*ops) if plain else src.pipe(rs.state.with_memory_store(pipeline=ops))
    active = []            # ids of the pushes in progress, innermost last
    outs = []              # [value, id of the innermost push in progress or None]
    pushes = []
    state = {'fired': False}
    raised = None

    def push(v):
        pid = len(pushes)
        pushes.append(v)
        active.append(pid)
        try:
            src.on_next(dec(v))
        finally:
            active.pop()

    def on_next(x):
        outs.append([enc(x), active[-1] if active else None])
        if not state['fired'] and len(outs) == fb_after + 1:
            state['fired'] = True
            push(fb_item)

    errs = []
    obs.subscribe(on_next=on_next, on_error=lambda e: errs.append(type(e).__name__))
    try:
        for it in items:
            push(it)
        src.on_completed()
    except Exception as e:
        raised = type(e).__name__
    return {'outs': outs, 'pushes': pushes, 'errors': errs, 'raised': raised, 'chunks': []}


def run_plain_tramp(term, items):
    """the same operators on an ordinary observable whose source pushes ALL items from inside one action of the current-thread
    scheduler (`rx.from_`, as every file reader of rxsci does): chunks [subscription, item 0.., completion] cut by a tap placed
    right after the source"""
    ops = Builder(mux=False).pipe(term)
    cur = []
    chunks = []
    state = {'end': None}

    def cut(*_a):
        chunks.append(list(cur))
        del cur[:]

    def on_error(e):
        cur.append({'x': type(e).__name__})
        state['end'] = 'error'

    def on_completed():
        state['end'] = 'completed'
    src = rx.from_([dec(it) for it in items]).pipe(rxops.do_action(on_next=cut, on_completed=cut))
    raised = None
    try:
        src.pipe(*ops).subscribe(on_next=lambda x: cur.append({'i': enc(x)}), on_error=on_error, on_completed=on_completed)
    except Exception as e:      # noqa
        raised = type(e).__name__
    # what follows the last cut belongs to the last event the source delivered (an item, or its completion); a pipeline that
    # completed early never sees the rest
    chunks.append(list(cur))
    while len(chunks) < len(items) + 2:
        chunks.append([])
    return {'chunks': chunks, 'end': state['end'], 'raised': raised}


def run_plain(term, items, prelude=None, share=False):
    """Real run of the same operators on an ordinary observable, item by item (with `prelude`: after an earlier
    subscription of the same observable object)"""
    b = Builder(mux=False, share=share)
    ops = b.pipe(term)
    if prelude is not None:
        rsrc = ResubSource()
        obs = rsrc.observable.pipe(*ops)
        run_prelude(obs, rsrc, prelude)
    cur = []
    state = {'end': None}

    def on_next(x):
        cur.append({'i': enc(x)})

    def on_error(e):
        cur.append({'x': type(e).__name__})
        state['end'] = 'error'

    def on_completed():
        state['end'] = 'completed'

    if prelude is not None:
        rsrc.subject = None
        obs.subscribe(on_next=on_next, on_error=on_error, on_completed=on_completed)
        src = rsrc.subject or Subject()
    else:
        src = Subject()
        src.pipe(*ops).subscribe(on_next=on_next, on_error=on_error, on_completed=on_completed)
    chunks = [list(cur)]
    del cur[:]
    raised = None
    for it in items:
        try:
            src.on_next(dec(it))
        except Exception as e:
            raised = type(e).__name__
            if not any('x' in c for c in cur):
                cur.append({'x': raised})
        chunks.append(list(cur))
        del cur[:]
        if raised:
            break
    while len(chunks) < len(items) + 1:
        chunks.append([])
    if raised is None:
        try:
            src.on_completed()
        except Exception as e:
            raised = type(e).__name__
            cur.append({'x': raised})
    chunks.append(list(cur))
    return {'chunks': chunks, 'end': state['end'], 'raised': raised}


def run_raw(term, trace):
    """Replays an arbitrary mux trace (sparse / reused indices) through `with_memory_store(pipeline)`
    on a hand-made MuxObservable; returns per-input-event chunks of raw mux events."""
    ops = Builder().pipe(term)
    holder = {}

    def subscribe(observer, scheduler=None):
        holder['o'] = observer
    source = rs.MuxObservable(subscribe)
    cur = []

    def on_next(i):
        e = enc_ev(i)
        if e is not None:
            cur.append(e)

    def on_error(e):
        cur.append(['x', type(e).__name__])

    source.pipe(rs.state.with_memory_store(pipeline=ops)).subscribe(on_next=on_next, on_error=on_error)
    o = holder['o']
    chunks = []
    del cur[:]
    raised = None
    for ev in trace:
        try:
            if ev[0] == 'c':
                o.on_next(rs.OnCreateMux(keyt(ev[1])))
            elif ev[0] == 'n':
                o.on_next(rs.OnNextMux(keyt(ev[1]), dec(ev[2])))
            elif ev[0] == 'd':
                o.on_next(rs.OnCompletedMux(keyt(ev[1])))
        except Exception as e:
            raised = type(e).__name__
        chunks.append(list(cur))
        del cur[:]
        if raised:
            break
    while len(chunks) < len(trace):
        chunks.append([])
    return {'chunks': chunks, 'raised': raised}


def trunc_chunks(chunks):
    """cut after the first fatal, like the model's top level"""
    out = []
    dead = False
    for c in chunks:
        if dead:
            out.append([])
            continue
        cc = []
        for o in c:
            cc.append(o)
            if 'x' in o:
                dead = True
                break
        out.append(cc)
    return out

"""Reference semantics written from the PROPERTY STATEMENTS (list definitions), independent of the Lean
model: for one key lifetime with items xs, what each operator emits and while which item.

ref_stage(st, xs) -> (chunks, fin) where chunks[i] = outputs determined by item i (emitted while it is
consumed) and fin = outputs that depend on the end of the key.  Items are Python values.
Raises NotCovered for operators / situations the statements do not define (errors etc.)."""
import math
from fractions import Fraction

from catalog import fn1, fn2, dec, enc, ASSERT1


class NotCovered(Exception):
    pass


def _scanl(g, seed, xs):
    out = []
    acc = seed
    for x in xs:
        acc = g(acc, x)
        out.append(acc)
    return out


def ref_stage(st, xs):
    n = st[0]
    N = len(xs)
    empty = [[] for _ in xs]
    if n in ('map', 'identity', 'do_action', 'clip', 'fill_none', 'starmap'):
        if n == 'map':
            f = fn1(st[1])
        elif n == 'starmap':
            g = fn2(st[1])
            f = lambda v: g(*v)   # noqa: E731
        elif n == 'clip':
            lo, hi = dec(st[1]), dec(st[2])
            f = lambda v: (max(min(v, hi), lo) if lo is not None and hi is not None else   # noqa: E731
                           (min(v, hi) if lo is None else max(v, lo)))
        elif n == 'fill_none':
            c = dec(st[1])
            f = lambda v: c if v is None else v   # noqa: E731
        else:
            f = lambda v: v   # noqa: E731
        return [[f(x)] for x in xs], []
    if n == 'filter':
        f = fn1(st[1])
        return [[x] if f(x) is True else [] for x in xs], []
    if n == 'flat_map':
        return [list(x) for x in xs], []
    if n == 'scan':
        g = fn2(st[1])
        import copy
        seed = copy.deepcopy(dec(st[2]))
        reduce, term = st[3], (fn1(st[4]) if st[4] is not None else None)
        folds = []
        acc = seed
        for x in xs:
            acc = copy.deepcopy(g(copy.deepcopy(acc), x))
            folds.append(acc)
        final = folds[-1] if folds else seed
        if term is not None:
            final = term(final)
        if reduce:
            return empty, [final]
        return [[a] for a in folds], ([final] if term is not None else [])
    if n == 'count':
        if st[1]:
            return empty, [N]
        return [[i + 1] for i in range(N)], []
    if n in ('sum', 'mean', 'min', 'max', 'variance', 'stddev', 'fvariance', 'fstddev'):
        raise NotCovered(n)    # numeric accuracy is C12's subject
    if n == 'first':
        return [[x] if i == 0 else [] for i, x in enumerate(xs)], []
    if n == 'last':
        return empty, (xs[-1:] if xs else [])
    if n == 'take':
        k = st[1]
        return [[x] if i < k else [] for i, x in enumerate(xs)], []
    if n == 'distinct':
        f = fn1(st[1]) if st[1] is not None else (lambda v: v)
        seen = []
        out = []
        for x in xs:
            k = f(x)
            if any(k == s for s in seen):
                out.append([])
            else:
                seen.append(k)
                out.append([x])
        return out, []
    if n == 'duc':
        f = fn1(st[1]) if st[1] is not None else (lambda v: v)
        out = []
        for i, x in enumerate(xs):
            if i == 0 or f(x) != f(xs[i - 1]):
                out.append([x])
            else:
                out.append([])
        return out, []
    if n == 'lag':
        k = st[1]
        return [[(xs[max(i - k, 0)], x)] for i, x in enumerate(xs)], []
    if n == 'pad_start':
        k, v = st[1], dec(st[2])
        out = [[x] for x in xs]
        if xs:
            out[0] = [v if v is not None else xs[0]] * k + out[0]
        return out, []
    if n == 'pad_end':
        k, v = st[1], dec(st[2])
        return [[x] for x in xs], ([v if v is not None else xs[-1]] * k if xs else [])
    if n == 'start_with':
        out = [[x] for x in xs]
        if xs:
            out[0] = [dec(p) for p in st[1]] + out[0]
        return out, []
    if n == 'batch':
        k = st[1]
        out = [[] for _ in xs]
        for i in range(N):
            if (i + 1) % k == 0:
                out[i] = [xs[i + 1 - k:i + 1]]
        rest = xs[N - N % k:] if N % k else []
        return out, ([rest] if rest else [])
    if n == 'to_list':
        return empty, [list(xs)]
    if n in ('assert', 'assert1', 'ignore', 'route', 'err_map', 'err_map_name'):
        raise NotCovered(n)
    raise NotCovered(n)


def ref_pipe(term, xs):
    """flat pipelines: compose the stage references, keeping the chunk structure"""
    chunks = [[x] for x in xs]
    fin = []
    for st in term:
        flat = [x for c in chunks for x in c] + fin
        sc, sf = ref_stage(st, flat)
        # redistribute per original chunk
        out = []
        pos = 0
        for c in chunks:
            cur = []
            for _ in c:
                cur.extend(sc[pos])
                pos += 1
            out.append(cur)
        nf = []
        for _ in fin:
            nf.extend(sc[pos])
            pos += 1
        chunks, fin = out, nf + sf
    return chunks, fin


def ref_pipe_plain(term, xs):
    """flat pipelines on an ORDINARY observable: as ref_pipe, but `first` / `take(n)` complete the stream with their last item,
    so whatever a later stage emits "at the end" is emitted while that item is processed"""
    chunks = [[x] for x in xs]
    fin = []
    end_at = None           # index of the source item with which the stream ends early (None: at source completion)
    for st in term:
        flat = [x for c in chunks for x in c] + fin
        sc, sf = ref_stage(st, flat)
        out = []
        pos = 0
        for c in chunks:
            cur = []
            for _ in c:
                cur.extend(sc[pos])
                pos += 1
            out.append(cur)
        nf = []
        for _ in fin:
            nf.extend(sc[pos])
            pos += 1
        tail = nf + sf
        if end_at is not None:
            out[end_at].extend(tail)
            tail = []
        if st[0] in ('first', 'take'):
            n = 1 if st[0] == 'first' else st[1]
            if n == 0:
                raise NotCovered('take(0)')
            seen = 0
            for j, c in enumerate(out):
                seen += len(c)
                if seen >= n:
                    if end_at is None or j < end_at:
                        end_at = j
                    for later in out[j + 1:]:
                        if later:
                            raise NotCovered('outputs after the end of the stream')
                    break
            else:
                if st[0] == 'first' and seen + len(tail) == 0:
                    raise NotCovered('first() of an empty sequence')
        chunks, fin = out, tail
    return chunks, fin


def enc_chunks(chunks, fin):
    return [[{'i': enc(x)} for x in c] for c in chunks] + [[{'i': enc(x)} for x in fin]]


# exact statistics for C12 ------------------------------------------------------------------------

def exact_stats(xs):
    fr = [Fraction(x) for x in xs]
    n = len(fr)
    s = sum(fr, Fraction(0))
    mean = s / n if n else None
    ss = sum(((x - mean) ** 2 for x in fr), Fraction(0)) if n else Fraction(0)
    return {'n': n, 'sum': s, 'mean': mean, 'ss': ss,
            'var_sample': (ss / (n - 1)) if n >= 2 else Fraction(0),
            'var_pop': (ss / n) if n >= 1 else Fraction(0),
            'min': min(fr) if fr else None, 'max': max(fr) if fr else None}

"""Type-directed random generation of pipeline terms (mostly valid, plus an erroring stream)."""

INT, FLOAT, BOOL, LIST, TUP, ANY = 'int', 'float', 'bool', 'list', 'tuple', 'any'
HASHABLE = (INT, FLOAT, BOOL, TUP)


def small(rng):
    return rng.choice([0, 1, 2, 3, 5, 7])


def gen_fn_int_int(rng):
    return rng.choice([['add', rng.choice([-3, 1, 2, 10])], ['mul', rng.choice([-1, 2, 3])],
                       ['mod', rng.choice([2, 3, 5])], ['neg'], ['floordiv', rng.choice([2, 3])], ['id']])


def gen_fn_int_bool(rng):
    return rng.choice([['is_even'], ['lt', rng.choice([0, 3, 10])], ['gt', rng.choice([0, 2, 5])],
                       ['mod_eq', rng.choice([2, 3]), rng.choice([0, 1])]])


def gen_key_fn(rng, ty):
    """group / split / distinct key function producing hashable, comparable values"""
    if ty == INT:
        return rng.choice([['mod', 2], ['mod', 3], ['key_of'], ['str_of'], ['big_of'], ['floordiv', 3],
                           ['is_even'], ['id'], ['const', 7], ['none_if_mod', 2, rng.choice([0, 1])],
                           ['none_if_mod', 3, rng.choice([0, 2])]])
    if ty == TUP:
        return rng.choice([['nth', 0], ['id'], ['const', None]])
    return rng.choice([['const', 1], ['id']]) if ty in HASHABLE else ['const', 1]


class Gen(object):
    def __init__(self, rng, opts=None):
        self.rng = rng
        o = {'errors': False, 'nest': 2, 'splitters': True, 'tee': True, 'dual_only': False,
             'mux_only_ops': True, 'math': True, 'max_len': 4, 'handlers': False, 'time_split': True}
        o.update(opts or {})
        self.o = o

    # -- single stages -------------------------------------------------------------------------
    def stage(self, ty, depth):
        """returns (list of terms, out type)"""
        rng = self.rng
        o = self.o
        choices = []
        generic = ['first', 'last', 'take', 'identity', 'count', 'to_list', 'batch', 'scan_gen', 'do_action']
        if ty in HASHABLE:
            generic += ['duc']
        if not o['dual_only'] and o['mux_only_ops']:
            generic += ['lag', 'pad_start', 'pad_end', 'start_with']
            if ty in HASHABLE:
                generic += ['distinct']
        choices += generic
        if ty == INT:
            choices += ['map_ii', 'map_ii', 'filter', 'filter', 'scan_int', 'scan_int', 'minmax', 'clip', 'fill_none',
                        'map_ib', 'range_flat', 'pair', 'assert', 'none_map']
            if o['math']:
                choices += ['sum', 'mean', 'variance', 'stddev', 'fvariance', 'fstddev']
            if not o['dual_only']:
                choices += ['assert1']
        if ty == FLOAT and o['math']:
            choices += ['sum', 'mean', 'minmax']
        if ty == TUP:
            choices += ['nth', 'nth']
        if ty == LIST:
            choices += ['flat_map', 'len', 'freeze']
        if depth > 0 and o['splitters'] and not o['dual_only']:
            choices += ['group_by', 'roll', 'split']
            if ty == INT and o['time_split']:
                choices += ['time_split']
        if depth > 0 and o['tee']:
            choices += ['tee', 'tee']
        if o['errors'] and ty == INT:
            choices += ['raise_map', 'raise_map', 'raise_filter', 'raise_scan']
        c = rng.choice(choices)
        r = rng.random() < 0.4
        if c == 'first':
            return [['first']], ty
        if c == 'last':
            return [['last']], ty
        if c == 'take':
            return [['take', rng.choice([0, 1, 2, 3, 5])]], ty
        if c == 'identity':
            return [['identity']], ty
        if c == 'do_action':
            return [['do_action']], ty
        if c == 'count':
            return [['count', r]], INT
        if c == 'to_list':
            return [['to_list']], LIST
        if c == 'batch':
            return [['batch', rng.choice([1, 2, 3, 4])]], LIST
        if c == 'scan_gen':
            k = rng.choice(['count', 'last', 'append'])
            if k == 'count':
                return [['scan', ['count'], rng.choice([0, 5]), r, None]], INT
            if k == 'last':
                # in reduce mode an empty lifetime emits the seed None: the output is not of the item type
                if ty == BOOL and rng.random() < 0.5:
                    # a bool seed: the state is kept in a typed array and read back as a bool
                    return [['scan', ['last'], rng.choice([False, True]), r, None]], BOOL
                return [['scan', ['last'], None, r, None]], (ANY if r else ty)
            # a mutating accumulator: only in reduce mode (or frozen right away) so that aliasing of the
            # emitted list cannot be observed downstream
            if rng.random() < 0.5:
                return [['scan', ['append'], {'l': []}, True, None] + rng.choice([[], ['factory']])], LIST
            return [['scan', ['append'], {'l': []}, False, None], ['map', ['freeze']]], (TUP if ty in HASHABLE else ANY)
        if c == 'duc':
            return [['duc', gen_key_fn(rng, ty) if (ty == INT and rng.random() < 0.5) else None]], ty
        if c == 'lag':
            return [['lag', rng.choice([0, 1, 1, 2, 3])]], (TUP if ty in HASHABLE else ANY)
        if c == 'pad_start':
            return [['pad_start', rng.choice([0, 1, 2]), rng.choice([None, 0]) if ty == INT else None]], ty
        if c == 'pad_end':
            return [['pad_end', rng.choice([0, 1, 2]), rng.choice([None, 0]) if ty == INT else None]], ty
        if c == 'start_with':
            return [['start_with', [small(rng) for _ in range(rng.choice([0, 1, 2]) if ty == INT else 0)]]], ty
        if c == 'distinct':
            return [['distinct', gen_key_fn(rng, ty) if (ty == INT and rng.random() < 0.5) else None]], ty
        if c == 'map_ii':
            return [['map', gen_fn_int_int(rng)]], INT
        if c == 'map_ib':
            return [['map', gen_fn_int_bool(rng)]], BOOL
        if c == 'filter':
            return [['filter', gen_fn_int_bool(rng)]], INT
        if c == 'scan_int':
            g = rng.choice(['add', 'max', 'min', 'sub'])
            term = rng.choice([None, None, ['add', 100], ['neg']])
            return [['scan', [g], rng.choice([0, 1, -5]), r, term]], INT
        if c == 'minmax':
            # in reduce mode an empty lifetime emits None: the output is not of the item type
            return [[rng.choice(['min', 'max']), rng.choice([None, ['neg']]) if ty == INT else None, r]], (ANY if r else ty)
        if c == 'clip':
            lo, hi = rng.choice([(None, 3), (1, None), (1, 4), (2, 2)])
            return [['clip', lo, hi]], INT
        if c == 'fill_none':
            return [['map', ['none_if_mod', 3, 0]], ['fill_none', 42]], INT
        if c == 'none_map':
            return [['map', ['none_if_mod', rng.choice([2, 3]), rng.choice([0, 1])]]], ANY
        if c == 'range_flat':
            return [['map', ['mod', 4]], ['map', ['range_list']], ['flat_map']], INT
        if c == 'pair':
            return [['map', rng.choice([['pair_self'], ['key_of']])]], TUP
        if c == 'assert':
            return [['assert', ['gt', -10 ** 6]]], INT
        if c == 'assert1':
            return [['assert1', 'ne' if rng.random() < 0.3 else 'le']], INT
        if c in ('sum', 'mean', 'variance', 'stddev', 'fvariance', 'fstddev'):
            km = rng.choice([None, None, ['mul', 2]]) if ty == INT else None
            return [[c, km, r]], FLOAT
        if c == 'nth':
            return [['map', ['nth', rng.choice([0, 1])]]], ANY
        if c == 'flat_map':
            return [['flat_map']], ANY
        if c == 'len':
            return [['map', ['len']]], INT
        if c == 'freeze':
            return [['map', ['freeze']]], ANY
        if c == 'group_by':
            inner, t2 = self.pipe(ty, depth - 1)
            return [['group_by', gen_key_fn(rng, ty), inner]], t2
        if c == 'roll':
            w, s = rng.choice([(1, 1), (2, 1), (3, 1), (3, 2), (2, 2), (3, 3), (2, 3), (1, 3), (5, 2), (4, 3), (7, 3)])
            inner, t2 = self.pipe(ty, depth - 1)
            return [['roll', w, s, inner]], t2
        if c == 'split':
            inner, t2 = self.pipe(ty, depth - 1)
            return [['split', gen_key_fn(rng, ty), inner]], t2
        if c == 'time_split':
            inner, t2 = self.pipe(ty, depth - 1)
            cfg = {'time': ['id'], 'active': rng.choice([None, 3, 5]), 'inactive': rng.choice([None, 2, 3]),
                   'closing': rng.choice([None, None, ['mod_eq', 4, 3]]), 'include': rng.random() < 0.5}
            return [['time_split', cfg, inner]], t2
        if c == 'tee':
            n = rng.choice([2, 2, 3, 4])
            mode = rng.choice(['zip', 'merge', 'combine_latest'])
            bs = []
            tys = []
            for _ in range(n):
                b, t2 = self.pipe(ty, depth - 1, in_tee=True)
                bs.append(b)
                tys.append(t2)
            out = (TUP if all(t in HASHABLE for t in tys) else ANY) if mode != 'merge' else (tys[0] if all(t == tys[0] for t in tys) else ANY)
            return [['tee', mode, bs]], out
        if c == 'raise_map':
            t = [['map', ['raise_if_mod', rng.choice([2, 3, 4]), rng.choice([0, 1])]]]
            return t + self.handler(), INT
        if c == 'raise_filter':
            # a predicate that raises on some items: raise_if_mod returns the int otherwise -> never `is True`
            t = [['filter', ['div_into', 1]]]   # ZeroDivisionError on 0, otherwise a float (not True)
            return t + self.handler(), INT
        if c == 'raise_scan':
            t = [['scan', ['raise_if_mod', rng.choice([2, 3]), rng.choice([0, 1])], 0, r, None]]
            return t + self.handler(), INT
        raise AssertionError(c)

    def handler(self):
        rng = self.rng
        return [rng.choice([['ignore'], ['ignore'], ['err_map', -1], ['route']])]

    def pipe(self, ty, depth, in_tee=False, n=None):
        rng = self.rng
        n = n if n is not None else rng.choice([0, 1, 1, 2, 2, 3, self.o['max_len']])
        terms = []
        early = False
        for _ in range(n):
            for _try in range(20):
                st, t2 = self.stage(ty, depth)
                if in_tee and self.o.get('no_done_after_early', False):
                    # C01 precondition: no completion-triggered operator after take/first inside a branch
                    names = [s[0] for s in st]
                    if early and any(completion_triggered(s) for s in st):
                        continue
                    if any(x in ('take', 'first') for x in names):
                        early = True
                break
            else:
                break
            terms.extend(st)
            ty = t2
        return terms, ty


def completion_triggered(st):
    n = st[0]
    if n in ('last', 'to_list', 'batch', 'pad_end'):
        return True
    if n in ('count', 'sum', 'mean', 'min', 'max', 'variance', 'stddev', 'fvariance', 'fstddev'):
        return bool(st[-1])
    if n == 'scan':
        return bool(st[3]) or st[4] is not None
    if n == 'tee':
        return any(completion_triggered(s) for b in st[2] for s in b)
    return False


def gen_items(rng, n=None, kind='int'):
    n = n if n is not None else rng.choice([0, 1, 2, 3, 5, 8, 13])
    if kind == 'mono':
        out = []
        t = 0
        for _ in range(n):
            t += rng.choice([0, 1, 1, 2, 3, 5])
            out.append(t)
        return out
    return [rng.choice([0, 1, 2, 3, 4, 5, 6, 7, 9, 12, -1, -4]) for _ in range(n)]


def walk(term):
    for st in term:
        yield st
        n = st[0]
        if n in ('group_by', 'split', 'time_split'):
            for s in walk(st[2]):
                yield s
        elif n == 'roll':
            for s in walk(st[3]):
                yield s
        elif n == 'tee':
            for b in st[2]:
                for s in walk(b):
                    yield s


def depth_of(term):
    d = 0
    for st in term:
        n = st[0]
        if n in ('group_by', 'split', 'time_split'):
            d = max(d, 1 + depth_of(st[2]))
        elif n == 'roll':
            d = max(d, 1 + depth_of(st[3]))
        elif n == 'tee':
            d = max(d, 1 + max([depth_of(b) for b in st[2]] or [0]))
    return d


def shrink_term(term):
    """smaller terms: drop a stage, replace a nested stage by its inner pipeline, shrink inner pipelines"""
    for i in range(len(term)):
        yield term[:i] + term[i + 1:]
    for i, st in enumerate(term):
        n = st[0]
        if n in ('group_by', 'split', 'time_split'):
            yield term[:i] + st[2] + term[i + 1:]
            for sub in shrink_term(st[2]):
                yield term[:i] + [[st[0], st[1], sub]] + term[i + 1:]
        elif n == 'roll':
            yield term[:i] + st[3] + term[i + 1:]
            for sub in shrink_term(st[3]):
                yield term[:i] + [[st[0], st[1], st[2], sub]] + term[i + 1:]
        elif n == 'tee':
            for b in st[2]:
                yield term[:i] + b + term[i + 1:]
            if len(st[2]) > 2:
                for j in range(len(st[2])):
                    yield term[:i] + [[st[0], st[1], st[2][:j] + st[2][j + 1:]]] + term[i + 1:]
            for j, b in enumerate(st[2]):
                for sub in shrink_term(b):
                    yield term[:i] + [[st[0], st[1], st[2][:j] + [sub] + st[2][j + 1:]]] + term[i + 1:]


def shrink_items(items):
    for i in range(len(items)):
        yield items[:i] + items[i + 1:]
    for i, x in enumerate(items):
        if isinstance(x, int) and not isinstance(x, bool) and x not in (0, 1):
            yield items[:i] + [x // 2] + items[i + 1:]


def gen_trace(rng, n_events=None, closed=True):
    """a well-formed raw mux trace with sparse, descending and reused slot indices"""
    n_events = n_events if n_events is not None else rng.choice([3, 6, 10, 20, 40])
    pool = [[5], [2], [9], [0], [3, 7], [2, 1], [11]]
    live = []
    tr = []
    for _ in range(n_events):
        r = rng.random()
        if (r < 0.25 or not live) and len(live) < 4:
            cands = [k for k in pool if all(k[0] != l[0] for l in live)]
            if cands:
                k = rng.choice(cands)
                live.append(k)
                tr.append(['c', k])
                continue
        if not live:
            continue
        k = rng.choice(live)
        if r > 0.85:
            live.remove(k)
            tr.append(['d', k])
        else:
            tr.append(['n', k, rng.choice([0, 1, 2, 3, 4, 5, 7, 9])])
    if closed:
        rng.shuffle(live)
        for k in live:
            tr.append(['d', k])
    return tr

"""Python twins of the Lean function catalogue (lean/RxModel/Catalog.lean) and the JSON value codec.

Values are built fresh (equal but not identical objects) so that identity-for-equality slips in
the code under test diverge from the model.
"""
import struct
from array import array
from collections import deque


# ---------------------------------------------------------------------------------------------
# values <-> JSON
# ---------------------------------------------------------------------------------------------

def enc(v):
    if v is None or isinstance(v, bool):
        return v
    if type(v) is _SubInt:
        return {'subint': int(v)}
    if type(v) is _SubFloat:
        return {'subfloat': enc(float(v))}
    if isinstance(v, int):
        return v
    if isinstance(v, float):
        return {'f': '%016x' % struct.unpack('<Q', struct.pack('<d', v))[0]}
    if isinstance(v, str):
        return v
    if isinstance(v, tuple):
        return {'t': [enc(x) for x in v]}
    if isinstance(v, (list, deque, array)):
        return {'l': [enc(x) for x in v]}
    if type(v).__name__ == 'datetime64' and type(v).__module__ == 'numpy':
        return {'npdt': int(v.astype('int64'))}
    if isinstance(v, BaseException):
        return {'exc': type(v).__name__}
    if isinstance(v, _Vec):
        return {'vec': [enc(x) for x in v.v]}
    for _n, _c in CALLABLES.items():
        if v is _c:
            return {'callable': _n}
    return {'repr': repr(v)}


def dec(j):
    """fresh objects every time"""
    if j is None or isinstance(j, bool):
        return j
    if isinstance(j, int):
        return int(str(j))
    if isinstance(j, str):
        return ''.join(list(j))
    if isinstance(j, dict):
        if 'f' in j:
            return struct.unpack('<d', struct.pack('<Q', int(j['f'], 16)))[0]
        if 't' in j:
            return tuple([dec(x) for x in j['t']])
        if 'l' in j:
            return [dec(x) for x in j['l']]
        if 'npdt' in j:
            import numpy
            return numpy.datetime64(j['npdt'], 'ns')     # a key whose .item() is a plain int that is a DIFFERENT key
        if 'subint' in j:
            return _SubInt(j['subint'])
        if 'subfloat' in j:
            return _SubFloat(dec(j['subfloat']))
        if 'vec' in j:
            return _Vec([dec(x) for x in j['vec']])
        if 'callable' in j:
            return CALLABLES[j['callable']]     # a value that happens to be callable (a class): a value like any other
    raise ValueError('bad value %r' % (j,))


CALLABLES = {'list': list, 'dict': dict, 'int': int}


def fbits(x):
    return enc(float(x))


# ---------------------------------------------------------------------------------------------
# functions
# ---------------------------------------------------------------------------------------------

class FalsyError(Exception):
    """an exception that is falsy (a validation error carrying an empty list of problems: `__len__` is 0)"""
    def __len__(self):
        return 0


EXC_TYPES = {'FalsyError': FalsyError, 'ValueError': ValueError, 'TypeError': TypeError, 'KeyError': KeyError, 'ZeroDivisionError': ZeroDivisionError,
             'AttributeError': AttributeError, 'IndexError': IndexError}


def _raise_if_mod(k, r, exc='ValueError'):
    def f(x):
        if x % k == r:
            raise EXC_TYPES[exc]('boom %r' % (x,))
        return x
    return f


SHARED_NAN = float('nan')


class _Sentinel(object):
    pass


class _SubInt(int):
    """a value whose type is a proper subclass of int (as an IntEnum member, a numpy integer): arithmetic keeps the subclass"""
    def __add__(self, o):
        return _SubInt(int(self) + int(o))

    __radd__ = __add__

    def __repr__(self):
        return '_SubInt(%d)' % int(self)


class _SubFloat(float):
    """a proper subclass of float whose addition rounds to cents and keeps the subclass"""
    def __add__(self, o):
        return _SubFloat(round(float(self) + float(o), 2))

    __radd__ = __add__

    def __repr__(self):
        return '_SubFloat(%r)' % float(self)


class _Amb(object):
    """the answer of an elementwise comparison: it has no truth value (as a numpy array of several elements)"""
    def __bool__(self):
        raise ValueError('The truth value of an elementwise comparison is ambiguous')


class _Vec(object):
    """a vector value: `+` is elementwise (with a number or a vector), `==` / `!=` are elementwise too and their answer cannot be
    used as a condition — what numpy arrays and pandas objects do"""
    def __init__(self, v):
        self.v = list(v)

    def __add__(self, o):
        if isinstance(o, _Vec):
            return _Vec([a + b for a, b in zip(self.v, o.v)])
        return _Vec([a + o for a in self.v])

    __radd__ = __add__

    def __eq__(self, o):
        return _Amb()

    def __ne__(self, o):
        return _Amb()

    __hash__ = None

    def __repr__(self):
        return '_Vec(%r)' % (self.v,)


class _NeInt(object):
    """a value whose comparisons answer with ints (1 / 0), as numpy scalars answer with numpy bools: truthy, but not `True`"""
    def __init__(self, v):
        self.v = v

    def __eq__(self, o):
        return 1 if isinstance(o, _NeInt) and o.v == self.v else 0

    def __ne__(self, o):
        return 0 if isinstance(o, _NeInt) and o.v == self.v else 1

    def __hash__(self):
        return hash(self.v)

    def __repr__(self):
        return 'NeInt(%r)' % (self.v,)


SENTINELS = [_Sentinel(), _Sentinel(), _Sentinel()]
import fractions as _fractions      # noqa: E402
import decimal as _decimal          # noqa: E402
MIXED_EQ = [[0, 0.0, False, _fractions.Fraction(0)], [1, 1.0, True, _fractions.Fraction(1)],
            [2, 2.0, _fractions.Fraction(4, 2), _decimal.Decimal(2)]]


def fn1(d):
    if d is None:
        return lambda i: i
    n = d[0]
    if n == 'id':
        return lambda x: x
    if n == 'add':
        k = d[1]
        return lambda x: x + int(str(k))
    if n == 'mul':
        k = d[1]
        return lambda x: x * k
    if n == 'mod':
        k = d[1]
        return lambda x: x % k
    if n == 'neg':
        return lambda x: 0 - x
    if n == 'is_even':
        return lambda x: x % 2 == 0
    if n == 'lt':
        k = d[1]
        return lambda x: x < k
    if n == 'gt':
        k = d[1]
        return lambda x: k < x
    if n == 'mod_eq':
        k, r = d[1], d[2]
        return lambda x: x % k == r
    if n == 'nth':
        i = d[1]
        return lambda x: x[i]
    if n == 'const':
        c = d[1]
        return lambda x: dec(c)
    if n == 'range_list':
        return lambda x: list(range(x))
    if n == 'div_into':
        k = d[1]
        return lambda x: k / x
    if n == 'raise_if_mod':
        return _raise_if_mod(d[1], d[2], *d[3:4])
    if n == 'truthy_int':
        return lambda x: x % 2
    if n == 'floordiv':
        k = d[1]
        return lambda x: x // k
    if n == 'pair_self':
        return lambda x: tuple([x, x])
    if n == 'freeze':
        return lambda x: tuple(x)
    if n == 'len':
        return lambda x: len(x)
    if n == 'none_if_mod':
        k, r = d[1], d[2]
        return lambda x: None if x % k == r else x
    if n == 'nan_if_mod':
        # ONE shared NaN object: identical but, by !=, different from itself (Python only; outside the model's value domain)
        k, r = d[1], d[2]
        return lambda x: SHARED_NAN if x % k == r else x
    if n == 'obj_of':
        # instances without __eq__: equal only to themselves (Python only; outside the model's value domain)
        k = d[1]
        return lambda x: SENTINELS[(x // k) % 3]
    if n == 'append_mark':
        # a consumer that changes the list it was handed IN PLACE (appends a trailer) and passes it on
        def am(x):
            x.append(d[1])
            return x
        return am
    if n == 'set_first':
        # a consumer that overwrites the first element of the list it was handed, in place
        def sf(x):
            x[0] = d[1]
            return x
        return sf
    if n == 'amb_if_mod':
        # a predicate whose answer has no truth value for some items (a comparison with pd.NA, a multi-element array): evaluating
        # the answer as a condition raises ValueError
        k, r = d[1], d[2]
        return lambda x: _Amb() if x % k == r else True
    if n == 'nan_none_mod':
        # group keys that are a FRESH NaN for some items, None for others, the item itself otherwise (None and NaN are different keys)
        k = d[1]
        return lambda x: float('nan') if x % k == 0 else (None if x % k == 1 else x)
    if n == 'list_of':
        # a fresh list as value (lists compare by ==, and differ from every tuple)
        k = d[1]
        return lambda x: [x // k, 'k']
    if n == 'is_float':
        return lambda x: isinstance(x, float)
    if n == 'round_robin':
        # a key mapper with a state of its own (a round-robin assigner): called once per item, in order (Python only)
        k = d[1]
        cnt = {'n': 0}

        def rr(x):
            cnt['n'] += 1
            return (cnt['n'] - 1) % k
        return rr
    if n == 'neint_of':
        k = d[1]
        return lambda x: _NeInt((x // k) % 3)
    if n == 'mixed_eq':
        # equal values of different types: 0 == 0.0 == False == Fraction(0), … (Python only)
        k = d[1]
        return lambda x: MIXED_EQ[(x // k) % 3][x % 4]
    if n == 'str_of':
        return lambda x: ''.join(list(str(x)))
    if n == 'big_of':
        return lambda x: int(str(x + 10 ** 30))
    if n == 'key_of':
        return lambda x: tuple([x % 3, ''.join(['g'])])
    raise ValueError('fn1 %r' % (d,))


def fn2(d):
    n = d[0]
    if n == 'add':
        return lambda a, x: a + x
    if n == 'sub':
        return lambda a, x: a - x
    if n == 'max':
        return lambda a, x: x if a < x else a
    if n == 'min':
        return lambda a, x: x if x < a else a
    if n == 'append':
        def app(a, x):
            a.append(x)      # mutates and returns its accumulator
            return a
        return app
    if n == 'count':
        return lambda a, x: a + 1
    if n == 'last':
        return lambda a, x: x
    if n == 'raise_if_mod':
        k, r = d[1], d[2]
        exc = EXC_TYPES[d[3]] if len(d) > 3 else ValueError

        def f(a, x):
            if x % k == r:
                raise exc('boom')
            return a + x
        return f
    if n == 'raise_default':
        # a user function with a default argument (Python only): callable with one argument too
        k, r = d[1], d[2]
        exc = EXC_TYPES[d[3]] if len(d) > 3 else ValueError

        def g(a, b=1, c=0):
            if isinstance(a, tuple):
                return ('called-with-the-whole-tuple', a)
            if a % k == r:
                raise exc('boom')
            return a + b + c
        return g
    if n == 'pair_last':
        return lambda a, x: (a[0] + 1, x)
    if n == 'append_raise_if_mod':
        k, r = d[1], d[2]

        def apr(a, x):
            a.append(x)      # records the item in place FIRST, then validates it: the object it was given has changed when it raises
            if x % k == r:
                raise ValueError('boom %r' % (x,))
            return a
        return apr
    if n == 'append_fst':
        def appf(a, x):
            a[0].append(x)   # mutates the list held by the (immutable) tuple accumulator
            return (a[0], a[1] + 1)
        return appf
    raise ValueError('fn2 %r' % (d,))


ASSERT1 = {
    'lt': lambda a, b: a < b,
    'le': lambda a, b: not (b < a),
    'ne': lambda a, b: a != b,
}

"""C07 — time_split sessions respect active/inactive timeouts and closing items."""
import itertools
import muxgen
import muxprop
from props._splitbase import *  # noqa: F401,F403
from props._splitbase import make_oracle

PROPERTY = 'C07'
ANCHORS = ['rxsci/data/time_split.py']
RULE = ('exhaustive small timelines (gaps drawn from {0, b-1, b, b+1, a-1, a, a+1}) for all four None/present combinations of the '
        'timeouts, closing mapper present/absent, include_closing_item True/False, plain integers and datetime/timedelta; under '
        'group_by with interleaved keys; random timelines; non-trivial = at least two sessions; distinct by SHA-1 of the case')
ORACLE_DOC = ('on the real boundary traces around every time_split: per parent key the non-empty inner lifetimes are exactly the '
              'sessions computed from the statement (reference = first item of the window or the closing item before it; new window iff '
              't >= ref + active or t >= last + inactive; otherwise a closing item ends the window, inclusive or exclusive)')
KNOWN_MATCHERS = {}
_oracle = make_oracle(('time_split',), close_order=True)


def timeline(gaps):
    t = 0
    out = []
    for g in gaps:
        t += g
        out.append(t)
    return out


def _cases(tier, rng):
    yield {'kind': 'mux', 'term': [['time_split', {'time': ['id'], 'active': 5, 'inactive': 3, 'closing': None, 'include': True}, [['to_list']]]],
           'items': [1, 2, 3, 4, 5, 6, 10, 12]}
    # sub-second timestamps whose gaps equal a timeout exactly (datetime + timedelta is exact; binary floating point is not)
    for aa, bb in ((None, 2), (7, None), (7, 2)):
        cfg = {'time': ['id'], 'active': aa, 'inactive': bb, 'closing': None, 'include': True, 'datetime': 'ms'}
        yield {'kind': 'mux', 'term': [['time_split', cfg, [['to_list']]]], 'items': [4, 6, 9, 16, 18, 19, 21, 28]}
        yield {'kind': 'mux', 'term': [['group_by', ['mod', 2], [['time_split', cfg, [['to_list']]]]]], 'items': [4, 6, 7, 8, 9, 10, 16, 17, 23]}
    a, b = 5, 3
    gapset = sorted(set([0, b - 1, b, b + 1, a - 1, a, a + 1]))
    combos = [(a, b), (a, None), (None, b), (None, None)]
    for (aa, bb) in combos:
        for closing in (None, ['mod_eq', 4, 3]):
            for incl in (True, False):
                if closing is None and not incl:
                    continue
                L = 3 if tier == 'quick' else 4
                for gaps in itertools.product(gapset, repeat=L):
                    if tier == 'quick' and rng.random() < 0.6:
                        continue
                    cfg = {'time': ['id'], 'active': aa, 'inactive': bb, 'closing': closing, 'include': incl}
                    if rng.random() < 0.3:
                        cfg['datetime'] = rng.choice([True, 'ms'])
                    yield {'kind': 'mux', 'term': [['time_split', cfg, [['to_list']]]], 'items': timeline((1,) + gaps)}
                    if closing is not None and rng.random() < 0.25:
                        # the very first item of the key is itself a closing item
                        yield {'kind': 'mux', 'term': [['time_split', cfg, [['to_list']]]], 'items': timeline((3,) + gaps)}
    n = {'quick': 900, 'thorough': 8000, 'search': 500}[tier]
    for _ in range(n):
        cfg = {'time': ['id'], 'active': rng.choice([None, 2, 3, 5, 0]), 'inactive': rng.choice([None, 1, 2, 3]),
               'closing': rng.choice([None, ['mod_eq', 4, 3], ['is_even'], ['mod_eq', 3, 0]]), 'include': rng.random() < 0.5}
        if rng.random() < 0.25:
            cfg['datetime'] = rng.choice([True, 'ms'])
        g = muxgen.Gen(rng, {'nest': 0})
        inner, _ = g.pipe('int', 0)
        if rng.random() < 0.5:
            inner = [['to_list']]
        term = [['time_split', cfg, inner]]
        items = muxgen.gen_items(rng, kind='mono')
        if rng.random() < 0.4:
            # interleaved keys: items are timestamps; group by residue keeps each key's sequence non-decreasing
            term = [['group_by', ['mod', 2], term]]
        yield {'kind': 'mux', 'term': term, 'items': items}


def nontrivial(case, r):
    return len(case['items']) >= 3


def tags(case, r):
    t = muxprop.tags(case, r)
    for st in muxgen.walk(case['term']):
        if st[0] == 'time_split':
            c = st[1]
            t.append('active=%s' % ('set' if c.get('active') is not None else 'None'))
            t.append('inactive=%s' % ('set' if c.get('inactive') is not None else 'None'))
            t.append('closing=%s/%s' % ('set' if c.get('closing') is not None else 'None', c.get('include')))
            if c.get('datetime'):
                t.append('datetime')
    return t


def cases(tier, rng):
    """every case of `_cases`, and for a fraction of the mux/plain ones the same case run as the SECOND subscription of
    its pipeline object (after an earlier subscription that completed, failed or was disposed)"""
    pr = rng.sub('resubscription')
    return muxprop.with_preludes(_cases(tier, rng), pr)


def oracle(case, r):
    v = muxprop.prelude_violation(case, r)
    if v or case.get('share'):
        return v        # the shared-operator variant wraps the pipeline in a tee_map: judged against separately built operators only
    return _oracle(case, r)

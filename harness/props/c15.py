"""C15 — framing round-trips under any re-chunking (line, length-prefix)."""
import itertools
import rxsci.framing.line as line
import rxsci.framing.length_prefix as lp
from rxutil import drive_plain, cut

PROPERTY = 'C15'
ANCHORS = ['rxsci/framing/line.py', 'rxsci/framing/length_prefix.py']
TRUSTED_BASE = [
    'Lean 4.33.0 kernel; axioms propext, Classical.choice, Quot.sound only',
    'hand-written model RxModel/Framing.lean (lineFeed/lineFinish, lpParse) tied to /repo by the correspondence check of this run',
    "modelled not verified: CPython str.split('\\n'), str/bytes concatenation, io.BytesIO, int.to_bytes/from_bytes; RxPY Subject/pipe/create",
]
ASSUMPTIONS = [
    'items of line framing contain no newline (they are lines); items of length-prefix framing have len < 256^prefix_size',
    'rxsci executes synchronously: outputs observed while a chunk is pushed are the outputs caused by that chunk',
]
RULE = ('cases = corpus + exhaustive cut sets of short framed streams + random item lists with random cut positions '
        '(duplicated positions give empty chunks; cuts fall inside prefixes and payloads); a third of the random cases also subscribe the '
        'same un-framed observable three times over a cold source (state must be per subscription, incl. after an incomplete trailing frame); '
        'non-trivial = at least two items or a carried-over partial item crosses a chunk boundary; distinct by SHA-1 of the canonical case')
ORACLE_DOC = ('real unframe over the chunked real-framed stream must deliver exactly the original items in order '
              '(line: a non-empty unterminated tail once at completion; length-prefix: an incomplete trailing frame never)')

ALPHA = 'ab \n\x00é€😀,"\\|\r\x0c\x1c\x85\u2028\u2029'


def _chunks(case):
    if case['kind'] == 'line':
        framed = ''.join(i + '\n' for i in case['items']) + case['tail']
        return cut(framed, case['cuts'])
    framed = b''.join(len(bytes(i)).to_bytes(case['p'], 'big' if case['big'] else 'little') + bytes(i)
                      for i in case['items'])
    if case.get('tail_item') is not None:
        t = bytes(case['tail_item'])
        framed += (len(t).to_bytes(case['p'], 'big' if case['big'] else 'little') + t)[:case['tail_len']]
    return cut(framed, case['cuts'])


def cases(tier, rng):
    # corpus of past / boundary cases
    yield {'kind': 'line', 'items': ['ab', 'cde', ''], 'tail': 'f', 'cuts': [5, 7, 7]}
    yield {'kind': 'line', 'items': [], 'tail': '', 'cuts': []}
    yield {'kind': 'line', 'items': [''], 'tail': '', 'cuts': [0, 1]}
    yield {'kind': 'lp', 'p': 2, 'big': False, 'items': [[7, 8, 9], [], [5]], 'tail_item': None, 'tail_len': 0, 'cuts': [3, 6, 8]}
    yield {'kind': 'lp', 'p': 1, 'big': True, 'items': [[0] * 255], 'tail_item': [1, 2, 3], 'tail_len': 2, 'cuts': [1, 200]}
    yield {'kind': 'lp', 'p': 2, 'big': False, 'items': [[1], [2, 3]], 'tail_item': [4, 5, 6], 'tail_len': 3, 'cuts': [2], 'resub': True}
    yield {'kind': 'line', 'items': ['a', 'b'], 'tail': 'c', 'cuts': [1], 'resub': True}
    # exhaustive: every cut set of short streams
    small_line = [(['a', '', 'bc'], 'd'), (['\n'.strip() or 'x', 'y'], ''), ([''], 'é')]
    for items, tail in small_line:
        n = sum(len(i) + 1 for i in items) + len(tail)
        for r in range(0, n + 1):
            for cs in itertools.combinations(range(0, n + 1), r):
                if tier == 'quick' and r > 3:
                    continue
                yield {'kind': 'line', 'items': items, 'tail': tail, 'cuts': list(cs)}
    for p, big in [(1, False), (2, True), (4, False), (8, True)]:
        items = [[1, 2], [], [0, 0, 3]]
        n = sum(len(i) + p for i in items) + min(p, 2)
        for r in range(0, 3 if tier == 'quick' else 4):
            for cs in itertools.combinations(range(0, n + 1), r):
                yield {'kind': 'lp', 'p': p, 'big': big, 'items': items, 'tail_item': [9, 9, 9], 'tail_len': min(p, 2), 'cuts': list(cs)}
                if len(cs) == 2:
                    # bytes-like chunks whose buffer the producer reuses: the un-framer may not keep a reference to a chunk
                    yield {'kind': 'lp', 'p': p, 'big': big, 'items': items, 'tail_item': [9, 9, 9], 'tail_len': min(p, 2), 'cuts': list(cs),
                           'carrier': 'memoryview' if (cs[0] + cs[1]) % 2 else 'bytearray'}
    # random
    n_rand = {'quick': 600, 'thorough': 12000, 'search': 800}[tier]
    for _ in range(n_rand):
        if rng.random() < 0.5:
            k = rng.choice([0, 1, 2, 3, 5, 9, 30])
            items = [''.join(rng.choice(ALPHA.replace('\n', '')) for _ in range(rng.choice([0, 0, 1, 2, 5, 40])))
                     for _ in range(k)]
            tail = ''.join(rng.choice(ALPHA.replace('\n', '')) for _ in range(rng.choice([0, 0, 1, 3])))
            n = sum(len(i) + 1 for i in items) + len(tail)
            cuts = sorted(rng.randrange(0, n + 1) for _ in range(rng.choice([0, 1, 2, 3, 6, 12])))
            yield {'kind': 'line', 'items': items, 'tail': tail, 'cuts': cuts, 'resub': rng.random() < 0.3}
        else:
            p = rng.choice([1, 2, 4, 8])
            big = rng.random() < 0.5
            k = rng.choice([0, 1, 2, 3, 5, 9])
            items = [[rng.choice([0, 1, 2, 10, 255, rng.randrange(256)]) for _ in range(rng.choice([0, 0, 1, 2, 5, 40, 255, 300] if p > 1 else [0, 1, 2, 5, 40, 255]))]
                     for _ in range(k)]
            tail_item = None
            tail_len = 0
            if rng.random() < 0.6:
                tail_item = [rng.randrange(256) for _ in range(rng.choice([0, 1, 5, 20]))]
                tail_len = rng.randrange(0, p + len(tail_item))
            n = sum(len(i) + p for i in items) + tail_len
            cuts = sorted(rng.randrange(0, n + 1) for _ in range(rng.choice([0, 1, 2, 3, 6, 12])))
            yield {'kind': 'lp', 'p': p, 'big': big, 'items': items, 'tail_item': tail_item, 'tail_len': tail_len, 'cuts': cuts,
                   'resub': rng.random() < 0.3, 'carrier': rng.choice([None, None, 'bytearray', 'memoryview'])}


def real(case):
    if case['kind'] == 'line':
        fr = drive_plain([line.frame()], case['items'])
        framed = ''.join(x for s in fr['steps'] for x in s)
        chunks = cut(framed + case['tail'], case['cuts'])
        r = drive_plain([line.unframe()], chunks)
        res = {'framed': [x for s in fr['steps'] for x in s], 'steps': r['steps'], 'fin': r['fin'], 'end': r['end']}
        if case.get('resub'):
            res['resub'] = _resub(line.unframe(), chunks, lambda x: x)
        return res
    order = 'big' if case['big'] else 'little'
    fr = drive_plain([lp.frame(prefix_size=case['p'], byteorder=order)], [bytes(i) for i in case['items']])
    framed = b''.join(x for s in fr['steps'] for x in s)
    if case.get('tail_item') is not None:
        t = drive_plain([lp.frame(prefix_size=case['p'], byteorder=order)], [bytes(case['tail_item'])])
        framed += t['steps'][0][0][:case['tail_len']]
    chunks = cut(framed, case['cuts'])
    r = drive_plain([lp.unframe(prefix_size=case['p'], byteorder=order)], chunks, carrier=case.get('carrier'))
    res = {'framed': [list(x) for s in fr['steps'] for x in s],
           'steps': [[list(x) for x in s] for s in r['steps']], 'fin': [list(x) for x in r['fin']], 'end': r['end']}
    if case.get('resub'):
        res['resub'] = _resub(lp.unframe(prefix_size=case['p'], byteorder=order), chunks, list)
    return res


def _resub(op, chunks, conv):
    """one un-framed observable over a cold source, subscribed three times: what each subscription delivers"""
    import rx
    obs = rx.from_(list(chunks)).pipe(op)
    runs = []
    for _ in range(3):
        got, end = [], []
        obs.subscribe(on_next=lambda x: got.append(conv(x)), on_completed=lambda: end.append('completed'),
                      on_error=lambda e: end.append('error:' + type(e).__name__))
        runs.append({'items': got, 'end': end})
    return runs


def model_cmds(case):
    chunks = _chunks(case)
    if case['kind'] == 'line':
        return [{'cmd': 'line_frame', 'items': case['items']},
                {'cmd': 'line_unframe', 'chunks': chunks}]
    return [{'cmd': 'lp_frame', 'p': case['p'], 'big': case['big'], 'items': case['items']},
            {'cmd': 'lp_unframe', 'p': case['p'], 'big': case['big'], 'chunks': [list(c) for c in chunks]}]


def model_result(case, ans):
    if case['kind'] == 'line':
        return {'framed': ans[0]['out'], 'steps': ans[1]['steps'], 'fin': ans[1]['fin'], 'end': 'completed'}
    return {'framed': ans[0]['out'], 'steps': ans[1]['steps'], 'fin': [], 'end': 'completed'}


def compare(case, r, m):
    for k in ('framed', 'steps', 'fin', 'end'):
        if r.get(k) != m.get(k):
            return '%s: real=%r model=%r' % (k, r.get(k), m.get(k))
    for n, run in enumerate(r.get('resub') or []):
        want = {'items': [x for s in m['steps'] for x in s] + m['fin'], 'end': ['completed']}
        if run != want:
            return 'subscription %d of the same un-framed observable: real=%r model (fresh state per subscription)=%r' % (n + 1, run, want)
    return None


def oracle(case, r):
    if 'harness_exc' in r:
        return 'real code raised: ' + r['harness_exc']
    for n, run in enumerate(r.get('resub') or []):
        want = case['items'] + ([case['tail']] if case['kind'] == 'line' and case['tail'] else [])
        if run['items'] != want or run['end'] != ['completed']:
            return ('%s.unframe, subscription %d of the same observable delivered %r (%s); expected %r'
                    % ('line' if case['kind'] == 'line' else 'length_prefix', n + 1, run['items'], run['end'], want))
    got = [x for s in r['steps'] for x in s]
    if case['kind'] == 'line':
        want_fin = [case['tail']] if case['tail'] else []
        if got != case['items'] or r['fin'] != want_fin or r['end'] != 'completed':
            return 'line.unframe delivered %r + %r at completion (%s); expected %r + %r' % (got, r['fin'], r['end'], case['items'], want_fin)
    else:
        if got != case['items'] or r['fin'] != [] or r['end'] != 'completed':
            return 'length_prefix.unframe delivered %r + %r at completion (%s); expected %r and nothing' % (got, r['fin'], r['end'], case['items'])
    return None


def nontrivial(case, r):
    if len(case['items']) >= 2:
        return True
    return len(case['cuts']) > 0 and len(case['items']) > 0


def tags(case, r):
    t = [case['kind'], 'items=%d' % min(len(case['items']), 10), 'cuts=%d' % min(len(case['cuts']), 12)]
    if case['kind'] == 'lp':
        t.append('p=%d/%s' % (case['p'], 'big' if case['big'] else 'little'))
        if case.get('tail_len'):
            t.append('incomplete-tail')
    elif case['tail']:
        t.append('unterminated-tail')
    if case.get('carrier'):
        t.append('chunks-as-' + case['carrier'])
    if any(a == b for a, b in zip(case['cuts'], case['cuts'][1:])) or (case['cuts'] and case['cuts'][0] == 0):
        t.append('empty-chunk')
    return t


def shrink_candidates(case):
    for i in range(len(case['cuts'])):
        c = dict(case)
        c['cuts'] = case['cuts'][:i] + case['cuts'][i + 1:]
        yield c
    for i in range(len(case['items'])):
        c = dict(case)
        c['items'] = case['items'][:i] + case['items'][i + 1:]
        n = 10 ** 9
        c['cuts'] = [min(x, n) for x in case['cuts']]
        c = _clamp(c)
        yield c
    for i, it in enumerate(case['items']):
        if len(it) > 1:
            c = dict(case)
            c['items'] = case['items'][:i] + [it[:len(it) // 2]] + case['items'][i + 1:]
            yield _clamp(c)


def _clamp(c):
    if c['kind'] == 'line':
        n = sum(len(i) + 1 for i in c['items']) + len(c['tail'])
    else:
        n = sum(len(i) + c['p'] for i in c['items']) + c.get('tail_len', 0)
    c['cuts'] = sorted(min(x, n) for x in c['cuts'])
    return c


def violation_class(case, text):
    return case['kind']


KNOWN_MATCHERS = {}

"""shared pieces of the C04/C06/C07 harness modules (splitters judged on boundary traces)"""
import muxgen
import muxprop
from muxprop import real, model_cmds, model_result, compare, shrink_candidates  # noqa: F401
import splitoracle

TRUSTED_BASE = muxprop.TRUSTED_BASE
ASSUMPTIONS = muxprop.ASSUMPTIONS


def make_oracle(names, close_order=True):
    def oracle(case, r):
        if 'harness_exc' in r:
            return 'real code raised: ' + r['harness_exc']
        if case['kind'] != 'mux' or r.get('raised') or muxprop.has_fatal(r['chunks']):
            return None
        return splitoracle.check_sites(case['term'], case['items'], r.get('bounds') or {}, names, close_order)
    return oracle


def wrap_in(rng, term):
    """put the term under an interleaving / key-reusing parent"""
    pre = rng.choice([None, None, ['group_by', ['mod', 2], None], ['group_by', ['key_of'], None],
                      ['split', ['floordiv', 4], None], ['roll', 3, 2, None], ['roll', 4, 4, None]])
    if pre is None:
        return term
    p = list(pre)
    p[-1] = term
    return [p]


def violation_class(case, text):
    for k in ('out of opening order', 'never completed', 'not kept apart', 'inner lifetimes', 'extra'):
        if k in text:
            return k
    return text[:60]

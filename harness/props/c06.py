"""C06 — split cuts each key's stream into maximal runs of equal predicate value."""
import muxgen
import muxprop
from props._splitbase import *  # noqa: F401,F403
from props._splitbase import make_oracle, wrap_in

PROPERTY = 'C06'
ANCHORS = ['rxsci/data/split.py']
RULE = ('split with predicates producing ints, big ints, strings and tuples built fresh at run time (equal but not identical), '
        'runs of length 1, a single run, empty keys; at top level, under group_by with interleaved keys, nested in roll/split, '
        'with random inner pipelines; non-trivial = the key has at least two runs; distinct by SHA-1 of the case')
ORACLE_DOC = ('on the real boundary traces around every split: per parent key the inner lifetimes are exactly the maximal runs '
              'of equal predicate value (compared with !=), contiguous, in order, all completed in order; nothing for an empty key')
KNOWN_MATCHERS = {}
_site_oracle = make_oracle(('split',))


def _oracle(case, r):
    v = _site_oracle(case, r)
    if v:
        return v
    # "the last segment is closed when the key completes": the segment's results leave split while the parent key is live, so on
    # every boundary of the pipeline the protocol holds (a result emitted after the parent's completion is an item of a dead key)
    if case['kind'] == 'mux' and not r.get('raised') and not muxprop.has_fatal(r['chunks']):
        for lab, tr in sorted((r.get('bounds') or {}).items()):
            if any(e[0] in ('e', 'x') for e in tr):
                continue
            w = muxprop.wf_monitor(tr)
            if w:
                return 'at the boundary %s of %s: %s' % (lab, muxprop.json.dumps(case['term'])[:200], w)
    return None

PREDS = [['floordiv', 3], ['mod', 2], ['key_of'], ['str_of'], ['big_of'], ['is_even'], ['const', 7], ['id'], ['const', None],
         ['none_if_mod', 2, 0]]


def _cases(tier, rng):
    yield {'kind': 'mux', 'term': [['split', ['floordiv', 3], [['to_list']]]], 'items': [0, 1, 2, 3, 4, 5, 6]}
    yield {'kind': 'mux', 'term': [['split', ['big_of'], [['count', True]]]], 'items': [5, 5, 5, 7, 7, 5]}
    yield {'kind': 'mux', 'term': [['split', ['key_of'], [['to_list']]]], 'items': []}
    # a stateful operator after split inside the same parent: it must see the result of the last segment before the parent completes
    yield {'kind': 'mux', 'term': [['split', ['floordiv', 3], [['to_list']]], ['count', True]], 'items': [0, 1, 2, 3, 4, 5, 6]}
    yield {'kind': 'mux', 'term': [['group_by', ['mod', 2], [['split', ['floordiv', 3], [['to_list']]], ['to_list']]]], 'items': [0, 1, 2, 3, 4, 5, 6]}
    yield {'kind': 'mux', 'term': [['roll', 3, 3, [['split', ['const', None], [['count', True]]]]]], 'items': [1, 2, 3, 4, 5, 6, 7]}
    # predicate values that are not equal to themselves (one shared NaN object): the property says "differs (by !=)".
    # Outside the model's value domain (decidable equality): judged by the oracle on the real code only.
    for items in ([3, 4, 5], [1, 3, 3, 2], [3], [3, 3, 3, 1, 1, 3], [2, 3, 3, 3, 4, 4], [1, 2, 3, 3]):
        for inner in ([['to_list']], [['count', True]]):
            yield {'kind': 'mux', 'term': [['split', ['nan_if_mod', 3, 0], inner]], 'items': items, 'no_model': True}
            yield {'kind': 'mux', 'term': [['group_by', ['mod', 2], [['split', ['nan_if_mod', 3, 0], inner]]]], 'items': items, 'no_model': True}
    # predicate values compared by identity (instances of a class without __eq__) and equal values of different types
    # (1 == 1.0 == True): "differs by !=" — outside the model's value domain, judged by the oracle on the real code only
    for pred in (['obj_of', 2], ['obj_of', 3], ['mixed_eq', 2], ['mixed_eq', 4], ['neint_of', 2], ['neint_of', 3], ['list_of', 2], ['list_of', 3]):
        for items in ([0, 1, 2, 3, 4, 5, 6, 7], [1, 1, 2, 3, 3, 8, 9, 4], [5], [0, 1, 4, 5, 2, 3, 6, 7, 7, 6], list(range(12))):
            for inner in ([['to_list']], [['count', True]]):
                yield {'kind': 'mux', 'term': [['split', pred, inner]], 'items': items, 'no_model': True}
                yield {'kind': 'mux', 'term': [['group_by', ['mod', 2], [['split', pred, inner]]]], 'items': items, 'no_model': True}
    # a mux error (a raising map upstream) that reaches split and is ignored inside the segment pipeline and after split: the key
    # goes on as if the failing item were absent — judged on the real code alone, against its own run without the failing items
    for _ in range({'quick': 60, 'thorough': 500, 'search': 30}[tier]):
        k, rr = rng.choice([(2, 0), (2, 1), (3, 0), (3, 2), (4, 1)])
        pred = rng.choice([['floordiv', 3], ['mod', 2], ['floordiv', 2], ['big_of']])
        inner = rng.choice([[['to_list']], [['count', True]], [['last']], [['sum', None, True]]])
        sp = [['map', ['raise_if_mod', k, rr]], ['split', pred, [['ignore']] + inner], ['ignore']]
        term = rng.choice([sp, sp, [['group_by', ['mod', 2], sp]]])
        items = [rng.choice([0, 1, 2, 3, 4, 5, 6, 7, 8]) for _ in range(rng.choice([1, 2, 4, 6, 9]))]
        yield {'kind': 'mux', 'term': term, 'items': items, 'no_model': True, 'absent': [k, rr]}
    n = {'quick': 1500, 'thorough': 10000, 'search': 600}[tier]
    for _ in range(n):
        p = rng.choice(PREDS)
        g = muxgen.Gen(rng, {'nest': 1, 'time_split': False})
        inner, _ = g.pipe('int', rng.choice([0, 0, 1]))
        term = wrap_in(rng, [['split', p, inner]])
        k = rng.choice([0, 1, 2, 5, 9, 16, 30])
        base = rng.choice([[0, 1, 2, 3, 4, 5, 6, 7, 8], [1, 1, 1, 2, 2, 3], [4], [2, 2, 2, 2]])
        items = [rng.choice(base) for _ in range(k)]
        yield {'kind': 'mux', 'term': term, 'items': items}


def model_cmds(case):
    return [] if case.get('no_model') else muxprop.model_cmds(case)


def model_result(case, ans):
    return {} if case.get('no_model') else muxprop.model_result(case, ans)


def compare(case, r, m):
    return None if case.get('no_model') else muxprop.compare(case, r, m)


def nontrivial(case, r):
    return len(set(case['items'])) >= 2 and len(case['items']) >= 3


def tags(case, r):
    t = muxprop.tags(case, r)
    for st in muxgen.walk(case['term']):
        if st[0] == 'split':
            t.append('pred=' + st[1][0])
    return t


def cases(tier, rng):
    """every case of `_cases`, and for a fraction of the mux/plain ones the same case run as the SECOND subscription of
    its pipeline object (after an earlier subscription that completed, failed or was disposed)"""
    pr = rng.sub('resubscription')
    return muxprop.with_preludes(_cases(tier, rng), pr)


def absent_violation(case, r):
    k, rr = case['absent']
    if 'harness_exc' in r:
        return 'real code raised: ' + r['harness_exc']
    if r.get('raised') or muxprop.has_fatal(r['chunks']):
        return ('%s over %s: the mux errors of the items with x %% %d == %d are ignored, yet the run ends with an error: %s'
                % (muxprop.json.dumps(case['term'])[:200], case['items'], k, rr, str(r['chunks'])[:300]))
    rest = [x for x in case['items'] if x % k != rr]
    r2 = muxprop.real(dict(case, items=rest))
    a, b = muxprop.outs(r['chunks']), muxprop.outs(r2['chunks'])
    if any(st[0] == 'group_by' for st in muxgen.walk(case['term'])):
        # a failing item still opens its group (group_by sees it before the stage that raises), so the order in which the groups
        # complete can differ from the run without it: the outputs are compared as multisets there
        a, b = sorted(a, key=muxprop.json.dumps), sorted(b, key=muxprop.json.dumps)
    if not any(isinstance(a_, list) and a_[:1] == ['raise_if_mod'] for st in muxgen.walk(case['term']) for a_ in st[1:]):
        return None         # (a shrunk case that lost its failing stage is not judged by this rule)
    if muxprop.strict_ne(a, b):
        return ('%s over %s emits %s; over the same items without the failing ones (%s) it emits %s — an ignored mux error must leave '
                'the segmentation of the key as if the item were absent' % (muxprop.json.dumps(case['term'])[:200], case['items'], str(a)[:250], rest, str(b)[:250]))
    return None


def oracle(case, r):
    v = muxprop.prelude_violation(case, r)
    if v or case.get('share'):
        return v        # the shared-operator variant wraps the pipeline in a tee_map: judged against separately built operators only
    if case.get('absent'):
        return absent_violation(case, r)
    return _oracle(case, r)

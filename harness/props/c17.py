"""C17 — incremental text encode/decode is chunk-boundary independent."""
import itertools
import rxsci as rs
from rxutil import drive_plain, cut

PROPERTY = 'C17'
ANCHORS = ['rxsci/data/codec.py', 'rxsci/container/json.py']
TRUSTED_BASE = [
    'Lean 4.33.0 kernel; axioms propext, Classical.choice, Quot.sound only',
    'hand-written model lean/RxModel/Codec.lean implementing utf-8 / utf-16 / utf-32 / latin-1 encoders and incremental decoders '
    '(Python codecs is NOT assumed: the model is compared byte for byte and character for character with it on every run)',
    'modelled, not verified: Python codecs incremental coder objects, RxPY plumbing',
]
ASSUMPTIONS = ['strings hold Unicode scalar values (no lone surrogates); latin-1 input has code points < 256',
               'the byte stream given to decode is what encode produced (valid, complete) possibly re-chunked']
RULE = ('string lists over an alphabet with ASCII, 2/3-byte and astral characters, combining marks, BOM character, empty strings; '
        'every cut set (quick: up to 3 cuts, thorough: all) of the encoded bytes of short lists, random cuts (with empty chunks) of longer ones; '
        'encodings utf-8, utf-16, utf-32, latin-1; non-trivial = a cut falls inside a multi-byte sequence or the BOM; distinct by SHA-1 of the case')
ORACLE_DOC = ('concatenation of what real decode emits over the re-chunked real encode output must equal the concatenation of the original '
              'strings and the run must complete; the BOM appears exactly once at the start of the encoded stream')
KNOWN_MATCHERS = {}

ALPHA = ['a', 'Z', ' ', '\n', '\r', 'é', 'ß', '€', '你', '😀', '𝔘', 'é', '﻿', '\x00', '\x7f', '߿', 'ࠀ', '￿', '\U00010000']
LATIN = ['a', 'Z', ' ', '\r', 'é', 'ß', '\xff', '\x00', '\x80']
ENCS = ['utf8', 'utf-16', 'utf-32', 'latin-1']


TWIN_TEXT = {'latin-1': ['\xe9\xff', 'twin', '\x80']}


def twin_text(enc):
    return TWIN_TEXT.get(enc, ['é€', '😀 twin', '你'])


SPELLINGS = {'utf8': ['utf8', 'UTF-8', 'utf_8', 'U8', 'utf-8'], 'utf-16': ['utf-16', 'utf16', 'UTF_16', 'U16', 'UTF-16'],
             'utf-32': ['utf-32', 'utf32', 'UTF_32', 'U32'], 'latin-1': ['latin-1', 'latin1', 'iso-8859-1', 'L1', 'latin_1', 'iso8859-1']}


def sp(case):
    """the spelling of the encoding name handed to the real code (every alias Python's codec registry accepts names the same codec)"""
    return case.get('spell', case['enc'])


def enc_real(enc, items, twin=None, spell=None):
    r = (drive_plain([rs.data.encode(spell or enc)], items, twin=twin_text(enc), twin_mode=twin) if twin
         else drive_plain([rs.data.encode(spell or enc)], items))
    out = [bytes(x) for s in r['steps'] for x in s] + [bytes(x) for x in r['fin']]
    return out, r['end']


def cases(tier, rng):
    yield {'enc': 'utf8', 'items': ['a😀', 'é'], 'cuts': [2, 3, 4]}
    yield {'enc': 'utf-16', 'items': [], 'cuts': []}
    yield {'enc': 'utf-16', 'items': ['😀'], 'cuts': [1, 3, 5]}
    yield {'enc': 'utf-32', 'items': ['', 'a'], 'cuts': [2, 6, 6]}
    # text that ends with a carriage return, and CR LF pairs cut between the two characters
    for enc in ENCS:
        yield {'enc': enc, 'items': ['line one\r', 'line two\r'], 'cuts': [3]}
        yield {'enc': enc, 'items': ['a\r\nb\r', '\n', '\r'], 'cuts': [2, 3]}
    for enc in ENCS:
        alpha = LATIN if enc == 'latin-1' else ALPHA
        for items in (['a' + alpha[4], alpha[8 % len(alpha)], ''], [alpha[-1] + alpha[6 % len(alpha)]]):
            data = b''.join(enc_real(enc, items)[0])
            n = len(data)
            maxr = 3 if tier == 'quick' else min(n, 6)
            for r in range(0, maxr + 1):
                for cs in itertools.combinations(range(0, n + 1), r):
                    yield {'enc': enc, 'items': items, 'cuts': list(cs)}
    for enc in ENCS:
        alpha = LATIN if enc == 'latin-1' else ALPHA
        for spell in SPELLINGS[enc]:
            yield {'enc': enc, 'spell': spell, 'items': ['a' + alpha[4], alpha[8 % len(alpha)], ''], 'cuts': [1, 3]}
    for enc in ('utf8', 'utf-16', 'utf-32'):
        for comp in (None, 'gzip', 'zstd'):
            yield {'kind': 'jsonfile', 'enc': enc, 'compression': comp, 'items': ['a', 'é😀', ''], 'cuts': []}
            if comp is None:
                # more records than any buffer the writer may batch by (1025, 2100): the byte-order mark is still written once
                yield {'kind': 'jsonfile', 'enc': enc, 'compression': comp, 'items': ['r%d' % i for i in range(1025)], 'cuts': []}
                yield {'kind': 'jsonfile', 'enc': enc, 'compression': comp, 'items': ['é%d' % i for i in range(2100)], 'cuts': []}
            # a reader told to skip records it cannot parse: a valid file still gives every record back
            yield {'kind': 'jsonfile', 'enc': enc, 'compression': comp, 'items': ['a', 'é😀', '', 'line\ntwo', 'z'], 'cuts': [], 'ignore_error': True}
            yield {'kind': 'jsonfile', 'enc': enc, 'compression': comp, 'items': [], 'cuts': []}
    for enc in ENCS:
        alpha = LATIN if enc == 'latin-1' else ALPHA
        items = ['a' + alpha[4] + alpha[-1], alpha[8 % len(alpha)]]
        n_ = len(b''.join(enc_real(enc, items)[0]))
        for prior in range(0, n_ + 1):
            yield {'kind': 'resub', 'enc': enc, 'items': items, 'prior': prior, 'cuts': [n_ // 2]}
    for enc in ENCS:
        alpha = LATIN if enc == 'latin-1' else ALPHA
        items = ['a' + alpha[4] + alpha[-1], alpha[8 % len(alpha)], alpha[6 % len(alpha)]]
        n_ = len(b''.join(enc_real(enc, items)[0]))
        for mode in ('before', 'mid'):
            for c in range(1, min(n_, 8)):
                yield {'enc': enc, 'items': items, 'cuts': [c, min(n_, c + 2)], 'twin': mode}
    n = {'quick': 500, 'thorough': 15000, 'search': 600}[tier]
    for _ in range(n):
        enc = rng.choice(ENCS)
        alpha = LATIN if enc == 'latin-1' else ALPHA
        items = [''.join(rng.choice(alpha) for _ in range(rng.choice([0, 0, 1, 2, 5, 30]))) for _ in range(rng.choice([0, 1, 2, 3, 6]))]
        data = b''.join(enc_real(enc, items)[0])
        cuts = sorted(rng.randrange(0, len(data) + 1) for _ in range(rng.choice([0, 1, 2, 3, 6, 12])))
        if rng.random() < 0.15:
            yield {'enc': enc, 'items': items, 'cuts': cuts, 'twin': rng.choice(['before', 'mid'])}
        if rng.random() < 0.25:
            yield {'enc': enc, 'spell': rng.choice(SPELLINGS[enc]), 'items': items, 'cuts': cuts}
        yield {'enc': enc, 'items': items, 'cuts': cuts}


def _jsonfile_real(case):
    import gzip
    import os
    import tempfile
    import rx
    import zstandard
    import rxsci.container.json as rsjson
    items = [{'k': s_} for s_ in case['items']]
    fd, path = tempfile.mkstemp(prefix='verif-c17-')
    os.close(fd)
    try:
        err = []
        rx.from_(items).pipe(rsjson.dump_to_file(path, encoding=sp(case), compression=case['compression'])).subscribe(
            on_error=err.append)
        raw = open(path, 'rb').read()
        if case['compression'] == 'gzip':
            raw = gzip.decompress(raw)
        elif case['compression'] == 'zstd':
            raw = zstandard.ZstdDecompressor().decompressobj().decompress(raw)
        back = []
        lkw = {'ignore_error': True} if case.get('ignore_error') else {}
        rsjson.load_from_file(path, encoding=sp(case), compression=case['compression'], **lkw).subscribe(
            on_next=back.append, on_error=err.append)
    finally:
        os.unlink(path)
    return {'file': list(raw), 'back': [b.get('k') if isinstance(b, dict) else repr(b) for b in back],
            'errors': [type(e).__name__ for e in err]}


def _json_lines(case):
    import json
    try:
        import orjson
        return [orjson.dumps({'k': s_}).decode() + '\n' for s_ in case['items']]
    except ImportError:
        return [json.dumps({'k': s_}) + '\n' for s_ in case['items']]


def _resub_real(case):
    """the same decode observable subscribed twice: first a truncated stream, disposed without completion"""
    from rx.subject import Subject
    encd, _ = enc_real(case['enc'], case['items'], spell=sp(case))
    data = b''.join(encd)
    src = Subject()
    obs = src.pipe(rs.data.decode(sp(case)))
    first = []
    d = obs.subscribe(on_next=first.append, on_error=lambda e: first.append('error'))
    try:
        src.on_next(data[:case['prior']])
    except Exception:
        pass
    d.dispose()
    out = []
    st = {'end': 'open'}
    obs.subscribe(on_next=out.append, on_error=lambda e: st.update(end='error:' + type(e).__name__),
                  on_completed=lambda: st.update(end='completed'))
    for c in cut(data, case['cuts']):
        if st['end'] == 'open':
            src.on_next(c)
    if st['end'] == 'open':
        src.on_completed()
    return {'encoded': [list(b) for b in encd], 'enc_end': 'completed', 'decoded': out, 'end': st['end']}


def real(case):
    if case.get('kind') == 'jsonfile':
        return _jsonfile_real(case)
    if case.get('kind') == 'resub':
        return _resub_real(case)
    encd, end1 = enc_real(case['enc'], case['items'], twin=case.get('twin'), spell=sp(case))
    data = b''.join(encd)
    chunks = cut(data, case['cuts'])
    if case.get('twin'):
        # the same decode operator object applied to a second source that is live at the same time, its bytes cut one by one
        tdata = b''.join(enc_real(case['enc'], twin_text(case['enc']))[0])
        r = drive_plain([rs.data.decode(sp(case))], chunks, twin=[tdata[i:i + 1] for i in range(len(tdata))], twin_mode=case['twin'])
    else:
        r = drive_plain([rs.data.decode(sp(case))], chunks)
    return {'encoded': [list(b) for b in encd], 'enc_end': end1,
            'decoded': [x for s in r['steps'] for x in s] + list(r['fin']), 'end': r['end'],
            'n_out': [len(s) for s in r['steps']] + [len(r['fin'])]}


def model_cmds(case):
    if case.get('kind') == 'jsonfile':
        return [{'cmd': 'encode', 'enc': case['enc'], 'items': _json_lines(case)}]
    # the model decodes the bytes the MODEL encoder produced, cut at the same positions
    return [{'cmd': 'encode', 'enc': case['enc'], 'items': case['items']}]


def model_result(case, ans):
    import common as C
    a = ans[0]
    if 'error' in a or 'exc' in a:
        return {'model_error': a.get('error') or a.get('exc')}
    if case.get('kind') == 'jsonfile':
        return {'file': [b for chunk in a['out'] for b in chunk]}
    data = [b for chunk in a['out'] for b in chunk]
    chunks = [list(c) for c in cut(data, case['cuts'])]
    d = C.run_driver([{'cmd': 'decode', 'enc': case['enc'], 'chunks': chunks}])[0]
    if 'exc' in d or 'error' in d:
        return {'encoded': a['out'], 'decoded': None, 'end': 'error:' + (d.get('exc') or d.get('error'))}
    return {'encoded': a['out'], 'decoded': d['out'], 'end': 'completed'}


def compare(case, r, m):
    if 'harness_exc' in r:
        return 'harness: ' + r['harness_exc']
    if 'model_error' in m:
        return 'model: ' + m['model_error']
    if case.get('kind') == 'jsonfile':
        return None if r['file'] == m['file'] else 'json file bytes: real=%s model=%s' % (r['file'][:60], m['file'][:60])
    if r['encoded'] != m['encoded']:
        return 'encode: real=%s model=%s' % (r['encoded'], m['encoded'])
    if r['end'] != m['end'] and not (r['end'].startswith('error') and m['end'].startswith('error')):
        return 'decode end: real=%s model=%s' % (r['end'], m['end'])
    if m['decoded'] is not None and r['decoded'] != m['decoded']:
        return 'decode: real=%r model=%r' % (r['decoded'], m['decoded'])
    return None


def oracle(case, r):
    if 'harness_exc' in r:
        return 'real code raised: ' + r['harness_exc']
    if case.get('kind') == 'jsonfile':
        if r['errors'] or r['back'] != case['items']:
            return ('json dump_to_file/load_from_file(encoding=%s, compression=%s) of %r returned %r (errors %s)'
                    % (case['enc'], case['compression'], case['items'], r['back'], r['errors']))
        return None
    want = ''.join(case['items'])
    got = ''.join(r['decoded'])
    if r['end'] != 'completed' or got != want:
        return ('%s: %r encoded then cut at %s decodes to %r (%s), expected %r'
                % (case['enc'], case['items'], case['cuts'], got, r['end'], want))
    data = b''.join(bytes(b) for b in r['encoded'])
    boms = {'utf-16': b'\xff\xfe', 'utf-32': b'\xff\xfe\x00\x00'}
    if case['enc'] in boms:
        b = boms[case['enc']]
        if not data.startswith(b):
            return '%s: encoded stream does not start with a byte-order mark: %r' % (case['enc'], data[:8])
        import codecs
        body = data[len(b):]
        if codecs.decode(data, case['enc']) != want:
            return '%s: the encoded stream is not the one-shot encoding of the text (BOM written more than once?)' % case['enc']
    return None


def nontrivial(case, r):
    if case.get('kind'):
        return len(case['items']) >= 2
    return len(case['cuts']) > 0 and sum(len(i) for i in case['items']) >= 2


def tags(case, r):
    t = ['kind=' + case.get('kind', 'stream'), 'enc=' + case['enc'], 'items=%d' % min(len(case['items']), 6), 'cuts=%d' % min(len(case['cuts']), 12)]
    if any(ord(c) > 0xffff for i in case['items'] for c in i):
        t.append('astral')
    if any(a == b for a, b in zip(case['cuts'], case['cuts'][1:])):
        t.append('empty-chunk')
    return t


def shrink_candidates(case):
    for i in range(len(case['cuts'])):
        c = dict(case)
        c['cuts'] = case['cuts'][:i] + case['cuts'][i + 1:]
        yield c
    for i in range(len(case['items'])):
        c = dict(case)
        c['items'] = case['items'][:i] + case['items'][i + 1:]
        c['cuts'] = [x for x in case['cuts']]
        yield c


def violation_class(case, text):
    return case.get('kind', 'stream') + case['enc']

"""C14 — the memory state store behaves as an isolated per-index typed map."""
import rxsci as rs
from rxsci.state.memory_store import MemoryStore
from array import array

from catalog import enc, dec
import muxreal

PROPERTY = 'C14'
ANCHORS = ['rxsci/state/memory_store.py', 'rxsci/state/store.py', 'rxsci/state/state_topology.py', 'rxsci/state/markers.py',
           'rxsci/internal/utils.py']
TRUSTED_BASE = [
    'Lean 4.33.0 kernel; axioms propext, Classical.choice, Quot.sound only',
    'hand-written model lean/RxModel/Store.lean (arrays + markers + mapper dicts), tied to /repo by the correspondence check of this run',
    'modelled, not verified: CPython list / array.array typed assignment (coercion, OverflowError, TypeError), dict insertion order',
]
ASSUMPTIONS = ['operations address slots that were allocated (add_key on an index <= the current length grows the arrays; '
               'reading an index beyond the arrays is an IndexError in both model and code)',
               'get_map / iterate_map are not applied to a deleted mapper slot (the code stores 0 there)']
RULE = ('random histories of 1..200 operations add_key / set / get / is_set / is_cleared / del_key / iterate over indices 0..40 drawn '
        'sparse, descending and repeated, for every data type (int, uint, float, bool, obj) with and without default value, with values of '
        'the declared type and (separate malformed stream) of a wrong type / out of range; mapper histories add_key / add_map / get_map / '
        'iterate_map / del_key; half of the histories go through StoreManager+Store; non-trivial = at least two distinct indices and a '
        'delete followed by a re-add; distinct by SHA-1 of the case')
ORACLE_DOC = ('a plain Python dict per index (the abstract map of the statement): after add_key a slot reads NotSet or the default, after set '
              'the value written with the declared type, after del_key + add_key it is fresh again; no operation on index i changes what '
              'another index reads; add_map returns indices never handed out before; iterate_map lists exactly the mapped keys in order')
KNOWN_MATCHERS = {}

DT = {'int': int, 'uint': 'uint', 'float': float, 'bool': bool, 'obj': 'obj', 'mapper': 'mapper'}


def key_of(i, rng):
    return [i] + rng.choice([[0], [0], [3, 0], [i, 0]])


def gen_value(rng, dt, bad=False):
    if bad:
        return rng.choice([{'f': '3ff8000000000000'}, 'x', None, 2 ** 70, -1, 300, {'t': [1]}])
    if dt == 'int':
        return rng.choice([0, 1, -1, 7, 2 ** 62, -2 ** 63, 2 ** 63 - 1, rng.randint(-1000, 1000)])
    if dt == 'uint':
        return rng.choice([0, 1, 7, 2 ** 64 - 1, rng.randint(0, 1000)])
    if dt == 'float':
        return rng.choice([enc(0.0), enc(-1.5), enc(3.25), 2, enc(1e300), enc(-0.0)])
    if dt == 'bool':
        return rng.choice([True, False, True, 0, 1, 255])
    return rng.choice([None, 0, 5, 'abc', {'t': [1, 2]}, {'l': []}, True, enc(2.5)])


def cases(tier, rng):
    yield {'dtype': 'int', 'default': None, 'via': 'direct',
           'ops': [['add_key', [5, 0]], ['get', [5, 0]], ['set', [5, 0], 7], ['get', [5, 0]], ['add_key', [2, 0]], ['get', [2, 0]],
                   ['del_key', [5, 0]], ['add_key', [5, 0]], ['get', [5, 0]], ['iterate']]}
    # a declared default value that happens to be callable (a class): stored and read back like any other value (outside the model's
    # values: judged by the oracle)
    for cname in ('list', 'dict', 'int'):
        for via in ('direct', 'manager'):
            yield {'dtype': 'obj', 'default': {'callable': cname}, 'via': via, 'no_model': True,
                   'ops': [['add_key', [0]], ['get', [0]], ['is_set', [0]], ['add_key', [2]], ['get', [2]], ['set', [0], 5], ['get', [0]],
                           ['del_key', [0]], ['add_key', [0]], ['get', [0]], ['set', [2], {'callable': cname}], ['get', [2]], ['iterate']]}
    # map keys that are numpy scalars next to the plain values they wrap (a nanosecond datetime64 and its epoch int are two keys)
    for via in ('direct', 'manager'):
        for a, b in (({'npdt': 5}, 5), (5, {'npdt': 5}), ({'npdt': 1700000000000000000}, 1700000000000000000)):
            yield {'dtype': 'mapper', 'default': None, 'via': via, 'no_model': True,
                   'ops': [['add_key', [0]], ['add_map', [0], a], ['get_map', [0], b], ['iterate_map', [0]], ['add_map', [0], b], ['get_map', [0], a],
                           ['get_map', [0], b], ['iterate_map', [0]]]}
    yield {'dtype': 'mapper', 'default': None, 'via': 'direct',
           'ops': [['add_key', [0]], ['add_map', [0], 'a'], ['add_map', [0], {'t': [1, 2]}], ['get_map', [0], {'t': [1, 2]}],
                   ['iterate_map', [0]], ['add_key', [3, 0]], ['add_map', [3, 0], 'a'], ['get_map', [3, 0], 'b'], ['iterate_map', [3, 0]]]}
    n = {'quick': 1200, 'thorough': 10000, 'search': 500}[tier]
    for _ in range(n):
        dt = rng.choice(['int', 'uint', 'float', 'bool', 'obj', 'obj', 'mapper'])
        nops = rng.choice([3, 8, 20, 60, 200])
        idxs = rng.choice([[0, 1, 2], [5, 2, 9, 0], [40, 3, 17], [7], list(range(0, 12))])
        bad_stream = rng.random() < 0.15
        default = None
        if dt not in ('mapper',) and rng.random() < 0.4:
            default = gen_value(rng, dt)
            if dt == 'obj' and default is None:
                default = 0
        ops = []
        added = set()
        if dt == 'mapper':
            for _ in range(nops):
                i = rng.choice(idxs)
                r = rng.random()
                k = key_of(i, rng)
                if i not in added or r < 0.1:
                    ops.append(['add_key', k])
                    added.add(i)
                elif r < 0.5:
                    ops.append(['add_map', k, rng.choice(['a', 'b', 1, 2, {'t': [1, 2]}, 10 ** 30])])
                elif r < 0.8:
                    ops.append(['get_map', k, rng.choice(['a', 'b', 1, 2, {'t': [1, 2]}, 10 ** 30, 'zz'])])
                elif r < 0.93:
                    ops.append(['iterate_map', k])
                else:
                    ops.append(['del_key', k])
                    added.discard(i)
        else:
            maxlen = 0
            for _ in range(nops):
                i = rng.choice(idxs)
                r = rng.random()
                k = key_of(i, rng)
                if i not in added and r < 0.7:
                    ops.append(['add_key', k])
                    added.add(i)
                    maxlen = max(maxlen, i + 1)
                elif i >= maxlen:
                    ops.append(rng.choice([['get', k], ['is_set', k]]))     # beyond the arrays: IndexError
                elif r < 0.35:
                    ops.append(['set', k, gen_value(rng, dt, bad=bad_stream and rng.random() < 0.5)])
                elif r < 0.6:
                    ops.append(['get', k])
                elif r < 0.68:
                    ops.append(['is_set', k])
                elif r < 0.74:
                    ops.append(['is_cleared', k])
                elif r < 0.84:
                    ops.append(['del_key', k])
                    added.discard(i)
                elif r < 0.92:
                    ops.append(['add_key', k])
                    added.add(i)
                else:
                    ops.append(['iterate'])
        yield {'dtype': dt, 'default': default, 'via': rng.choice(['direct', 'manager']), 'ops': ops}


class _Topo(object):
    pass


def real(case):
    dt = DT[case['dtype']]
    default = dec(case['default']) if case['default'] is not None else None
    if case['via'] == 'manager':
        mgr = rs.state.StoreManager(store_factory=MemoryStore)
        from rxsci.state.state_topology import StateTopology
        topo = StateTopology()
        if case['dtype'] == 'mapper':
            sid = topo.create_mapper('m')
        else:
            sid = topo.create_state('s', data_type=dt, default_value=default)
        mgr.set_topology(topo)

        def call(name, *a):
            m = {'add_key': mgr.add_key, 'del_key': mgr.del_key, 'set': mgr.set_state, 'get': mgr.get_state,
                 'iterate': mgr.iterate_state, 'add_map': mgr.add_map, 'get_map': mgr.get_map, 'iterate_map': mgr.iterate_map}[name]
            return m(sid, *a)
        store = None
    else:
        store = MemoryStore(data_type=dt, default_value=default)

        def call(name, *a):
            return getattr(store, name)(*a)
    res = []
    for op in case['ops']:
        name = op[0]
        try:
            if name in ('is_set', 'is_cleared'):
                st = store if store is not None else mgr.get_store().states[sid]
                res.append(getattr(st, name)(muxreal.keyt(op[1])))
            elif name == 'iterate':
                out = []
                for k, v, s in call('iterate'):
                    out.append([muxreal.keyl(k) if isinstance(k, tuple) else None, enc(v), bool(s)])
                res.append({'dump': out})
            elif name == 'iterate_map':
                res.append({'keys': [enc(k) for k in call('iterate_map', muxreal.keyt(op[1]))]})
            elif name in ('add_map', 'get_map'):
                r = call(name, muxreal.keyt(op[1]), dec(op[2]))
                res.append('NotSet' if r is rs.state.markers.STATE_NOTSET else {'idx': r})
            elif name == 'set':
                call('set', muxreal.keyt(op[1]), dec(op[2]))
                res.append('ok')
            elif name == 'get':
                r = call('get', muxreal.keyt(op[1]))
                res.append('NotSet' if r is rs.state.markers.STATE_NOTSET else {'v': enc(r)})
            else:
                call(name, muxreal.keyt(op[1]))
                res.append('ok')
        except Exception as e:
            res.append({'exc': type(e).__name__})
    return {'res': res}


def model_cmds(case):
    if case.get('no_model'):
        return []
    return [{'cmd': 'store', 'dtype': case['dtype'], 'default': case['default'], 'ops': case['ops']}]


def model_result(case, ans):
    if case.get('no_model'):
        return {}
    if 'error' in ans[0]:
        return {'model_error': ans[0]['error']}
    return {'res': ans[0]['res']}


def compare(case, r, m):
    if 'harness_exc' in r:
        return 'harness: ' + r['harness_exc']
    if case.get('no_model'):
        return None
    if 'model_error' in m:
        return 'model: ' + m['model_error']
    for i, (a, b) in enumerate(zip(r['res'], m['res'])):
        if a != b:
            return 'op %d %s: real=%s model=%s' % (i, case['ops'][i], a, b)
    return None


def oracle(case, r):
    """the abstract per-index map of the statement, as a Python dict"""
    if 'harness_exc' in r:
        return 'real code raised: ' + r['harness_exc']
    dt = case['dtype']
    default = case['default']
    if dt == 'mapper':
        handed = []
        maps = {}
        for op, res in zip(case['ops'], r['res']):
            i = op[1][0] if len(op) > 1 else None
            if isinstance(res, dict) and 'exc' in res:
                return None
            if op[0] == 'add_key':
                maps[i] = []
            elif op[0] == 'del_key':
                maps.pop(i, None)
            elif i not in maps:
                return None
            elif op[0] == 'add_map':
                idx = res.get('idx')
                if idx in handed:
                    return 'add_map returned index %s which was already handed out (%s)' % (idx, handed)
                handed.append(idx)
                key = dec(op[2])
                for p in maps[i]:
                    if p[0] == key:
                        p[1] = idx
                        break
                else:
                    maps[i].append([key, idx])
            elif op[0] == 'get_map':
                key = dec(op[2])
                want = 'NotSet'
                for p in maps[i]:
                    if p[0] == key:
                        want = {'idx': p[1]}
                if res != want:
                    return 'get_map(%s, %r) returned %s, the map of that index holds %s' % (op[1], key, res, maps[i])
            elif op[0] == 'iterate_map':
                want = [enc(p[0]) for p in maps[i]]
                if res.get('keys') != want:
                    return 'iterate_map(%s) enumerated %s, mapped keys are %s' % (op[1], res.get('keys'), want)
        return None
    # typed slots: the abstract map per index; a write of a value the declared type rejects raises and must change nothing
    slots = {}
    for op, res in zip(case['ops'], r['res']):
        name = op[0]
        if isinstance(res, dict) and 'exc' in res:
            if name == 'set' and op[1][0] in slots:
                v = dec(op[2])
                fits = {'int': type(v) is int and -2 ** 63 <= v < 2 ** 63, 'uint': type(v) is int and 0 <= v < 2 ** 64,
                        'float': type(v) is float, 'bool': type(v) is bool}.get(dt, True)
                if fits:
                    return ('set(%s, %r) raised %s although the value is of the declared type %s: it cannot be written and read back'
                            % (op[1], v, res['exc'], dt))
                continue        # a write the typed array rejected (TypeError / OverflowError) is not a write: the slot reads as before
            return None
        if name == 'iterate':
            got_idx = [e[0][0] if e[0] else None for e in res.get('dump', [])]
            if got_idx != sorted(slots):
                return 'iterate() enumerated indices %s, the indices added and not deleted are %s' % (got_idx, sorted(slots))
            continue
        i = op[1][0]
        if name == 'is_cleared':
            if res != (i not in slots):
                return 'is_cleared(%s) returned %s, added and not deleted indices are %s' % (op[1], res, sorted(slots))
            continue
        if name == 'add_key':
            slots[i] = ('set', default) if default is not None else ('notset', None)
        elif name == 'del_key':
            slots.pop(i, None)
        elif name == 'set':
            if i not in slots:
                return None
            slots[i] = ('set', op[2])
        elif name == 'get':
            if i not in slots:
                continue            # reading a deleted slot is not specified
            st, v = slots[i]
            if st == 'notset':
                if res != 'NotSet':
                    return 'get(%s) returned %s for a slot that was added and never written (history %s)' % (op[1], res, case['ops'][:12])
            else:
                want = dec(v)
                if dt == 'bool':
                    want = bool(want)
                got = dec(res['v']) if isinstance(res, dict) and 'v' in res else res
                typ = {'int': int, 'uint': int, 'float': float, 'bool': bool}.get(dt)
                # "reads back the last value written": the value itself, not merely one that compares equal (True is not 1,
                # -0.0 is not 0.0, 1.0 is not 1): object slots and float slots are compared through the canonical encoding
                same = True
                if isinstance(res, dict) and 'v' in res:
                    if dt == 'obj':
                        same = enc(got) == enc(want)
                    elif dt == 'float' and isinstance(want, (int, float)) and not isinstance(want, bool):
                        same = enc(got) == enc(float(want))       # "with the declared type": an int written reads back as that float
                if got != want or not same or (typ is not None and type(got) is not typ):
                    return 'get(%s) returned %r, the last value written to that index is %r (declared type %s)' % (op[1], got, want, dt)
        elif name == 'is_set':
            if i in slots and res != (slots[i][0] == 'set'):
                return 'is_set(%s) returned %s' % (op[1], res)
    return None


def nontrivial(case, r):
    idx = set(op[1][0] for op in case['ops'] if len(op) > 1)
    names = [op[0] for op in case['ops']]
    return len(idx) >= 2 and 'del_key' in names


def tags(case, r):
    t = ['dtype=' + case['dtype'], 'default=%s' % (case['default'] is not None), 'via=' + case['via'],
         'ops=%s' % ('<10' if len(case['ops']) < 10 else '10-59' if len(case['ops']) < 60 else '60+')]
    if isinstance(r, dict):
        for x in r.get('res', []):
            if isinstance(x, dict) and 'exc' in x:
                t.append('exc=' + x['exc'])
    return sorted(set(t))


def shrink_candidates(case):
    ops = case['ops']
    for i in range(len(ops)):
        c = dict(case)
        c['ops'] = ops[:i] + ops[i + 1:]
        yield c


def violation_class(case, text):
    return text.split('(')[0][:30]

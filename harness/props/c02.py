"""C02 — state confinement: a key lifetime's output depends only on that lifetime's items."""
import muxgen
import muxprop
from muxprop import real, model_cmds, model_result, compare, shrink_candidates  # noqa: F401
import muxreal
import splitoracle

PROPERTY = 'C02'
ANCHORS = ['rxsci/state/memory_store.py', 'rxsci/state/store.py', 'rxsci/operators/group_by.py', 'rxsci/data/roll.py',
           'rxsci/data/split.py', 'rxsci/data/time_split.py', 'rxsci/operators/tee_map.py', 'rxsci/operators/scan.py',
           'rxsci/operators/distinct.py', 'rxsci/data/lag.py', 'rxsci/data/pad.py', 'rxsci/operators/start_with.py',
           'rxsci/operators/take.py', 'rxsci/operators/first.py', 'rxsci/operators/last.py']
TRUSTED_BASE = muxprop.TRUSTED_BASE
ASSUMPTIONS = muxprop.ASSUMPTIONS
RULE = ('an inner pipeline of stateful operators (scan family, first, last, take, distinct, distinct_until_changed, lag, pad_*, start_with, '
        'batch, assert_1, tee_map zip/combine_latest, nested splitters) placed inside group_by (interleaved keys), roll (successive windows in '
        'one slot), split / time_split (segments on the parent index) and two-level nests of them; plus raw replayed traces with sparse, '
        'descending and reused indices; non-trivial = at least two lifetimes of the inner pipeline, one of them reusing a slot or '
        'interleaved with another; distinct by SHA-1 of the case')
ORACLE_DOC = ('for every lifetime observed at the head of an inner pipeline (recorded items of that key between its create and its completion) '
              'the outputs of the same lifetime at the tail must equal a STANDALONE real run of the same inner pipeline on exactly those items')
KNOWN_MATCHERS = {}

_cache = {}


def standalone(inner, items):
    k = muxprop.json.dumps([inner, items])
    if k not in _cache:
        r = muxprop.quiet(muxreal.run_mux, inner, items, False)
        ch = muxreal.trunc_chunks(r['chunks'])
        if r['raised'] or muxprop.has_fatal(ch):
            _cache[k] = None
        else:
            _cache[k] = muxprop.items_of(ch)
    return _cache[k]


def _cases(tier, rng):
    yield {'kind': 'mux', 'term': [['split', ['floordiv', 2], [['tee', 'combine_latest', [[['first']], [['identity']], [['count', False]]]]]]],
           'items': [0, 1, 2, 3, 4, 5]}
    yield {'kind': 'mux', 'term': [['roll', 2, 2, [['tee', 'zip', [[['filter', ['is_even']]], [['identity']]]]]]], 'items': [1, 1, 2, 3, 5, 5, 6, 7]}
    yield {'kind': 'mux', 'term': [['roll', 3, 3, [['split', ['mod', 2], [['count', True]]]]]], 'items': [0, 0, 1, 0, 1, 1, 2]}
    # a terminator (user function called at the completion of a key) that raises for some lifetimes, in the last branch of a tee_map
    # whose other branch can hold a pending value, the error ignored, under parents that reuse the slot: whatever happens to the failing
    # lifetime, the later ones emit what they emit alone (outside the model: its terminators are total)
    for _ in range({'quick': 40, 'thorough': 400, 'search': 20}[tier]):
        k, rr = rng.choice([(2, 1), (3, 0), (3, 1), (4, 2)])
        sc = ['scan', ['add'], 0, True, ['raise_if_mod', k, rr]]
        other = rng.choice([[['filter', ['is_even']], ['last']], [['filter', ['lt', 3]], ['last']], [['last']], [['filter', ['is_even']]]])
        tee = ['tee', rng.choice(['zip', 'zip', 'combine_latest']), rng.choice([[other, [sc]], [[sc], other], [other, [['count', True]], [sc]]])]
        inner = [tee, ['ignore']]
        ctx = rng.choice([['split', ['floordiv', 3]], ['split', ['mod', 2]], ['roll', 2, 2], ['roll', 3, 3], ['group_by', ['mod', 2]]])
        items = [rng.randrange(9) for _ in range(rng.choice([5, 8, 13]))]
        if ctx[0] == 'split' and ctx[1] == ['floordiv', 3]:
            items = sorted(items)
        yield {'kind': 'mux', 'term': [ctx + [inner]], 'items': items, 'no_model': True}
    n = {'quick': 1500, 'thorough': 10000, 'search': 600}[tier]
    for _ in range(n):
        g = muxgen.Gen(rng, {'nest': 1, 'max_len': 3, 'math': rng.random() < 0.3})
        inner, _ = g.pipe('int', 1)
        if not inner:
            continue
        ctxs = [['group_by', rng.choice([['mod', 2], ['mod', 3], ['key_of']])], ['roll'] + list(rng.choice([(2, 2), (3, 3), (3, 1), (3, 2), (2, 3), (1, 1)])),
                ['split', rng.choice([['floordiv', 3], ['mod', 2]])],
                ['time_split', {'time': ['id'], 'active': rng.choice([None, 4]), 'inactive': rng.choice([None, 2]),
                                'closing': rng.choice([None, ['mod_eq', 4, 3]]), 'include': rng.random() < 0.5}]]
        c1 = rng.choice(ctxs)
        term = [c1 + [inner]]
        mono = c1[0] == 'time_split' or any(s[0] == 'time_split' for s in muxgen.walk(inner))
        if rng.random() < 0.35:
            c0 = rng.choice(ctxs[:3])
            term = [c0 + [term]]
        if rng.random() < 0.15 and not mono:
            yield {'kind': 'raw', 'term': inner, 'trace': muxgen.gen_trace(rng)}
            continue
        yield {'kind': 'mux', 'term': term, 'items': muxgen.gen_items(rng, n=rng.choice([2, 5, 8, 13, 21]), kind='mono' if mono else 'int')}


def _oracle(case, r):
    if 'harness_exc' in r:
        return 'real code raised: ' + r['harness_exc']
    if r.get('raised') or muxprop.has_fatal(r['chunks']):
        return None
    if case['kind'] == 'raw':
        # lifetimes of the replayed trace vs the output trace of the pipeline under test
        tr_out = [e for c in r['chunks'] for e in c]
        hl = muxprop.lifetimes(case['trace'])
        tl = muxprop.lifetimes(tr_out)
        if len(hl) != len(tl) or any(e[0] == 'e' for e in tr_out):
            return None
        for h, o in zip(hl, tl):
            if h['key'] != o['key'] or not h['closed']:
                return None
            want = standalone(case['term'], h['items'])
            if want is not None and o['items'] != want:
                return ('lifetime of key %s with items %s replayed among other keys / after earlier lifetimes of its slot emitted %s; '
                        'standalone the same pipeline %s emits %s' % (h['key'], h['items'], str(o['items'])[:200], case['term'], str(want)[:200]))
        return None
    b = r.get('bounds') or {}
    for st, inp, innerlab in splitoracle.splitter_sites(case['term'], ('group_by', 'roll', 'split', 'time_split')):
        inner = st[-1]
        if not inner:
            continue
        head = b.get(innerlab)
        tail = b.get(muxprop.tail_label(inner, innerlab[:-3]))
        if head is None or tail is None or any(e[0] in ('e', 'x') for e in head + tail):
            continue
        hl = muxprop.lifetimes(head)
        tl = muxprop.lifetimes(tail)
        if len(hl) != len(tl):
            continue
        for h, o in zip(hl, tl):
            if h['key'] != o['key'] or not h['closed']:
                break
            want = standalone(inner, h['items'])
            if want is not None and o['items'] != want:
                return ('inside %s%s: the lifetime of key %s with items %s emitted %s; standalone the same inner pipeline %s emits %s'
                        % (st[0], muxprop.json.dumps(st[1:-1])[:60], h['key'], h['items'], str(o['items'])[:200],
                           muxprop.json.dumps(inner)[:200], str(want)[:200]))
    return None


def real(case):      # noqa: F811
    if case['kind'] == 'sources':
        from props import c11
        return c11.real(case)
    return muxprop.real(case)


def shrink_candidates(case):      # noqa: F811
    if case['kind'] == 'sources':
        from props import c11
        for c in c11.shrink_candidates(case):
            yield c
        return
    for c in muxprop.shrink_candidates(case):
        yield c


def model_cmds(case):      # noqa: F811
    return [] if case.get('no_model') else muxprop.model_cmds(case)


def model_result(case, ans):      # noqa: F811
    return {} if case.get('no_model') else muxprop.model_result(case, ans)


def compare(case, r, m):      # noqa: F811
    return None if case.get('no_model') else muxprop.compare(case, r, m)


def nontrivial(case, r):
    return len(case.get('items') or case.get('trace') or []) >= 4


tags = muxprop.tags


def violation_class(case, text):
    if 'tee' in text:
        return 'tee'
    return 'lifetime'


def cases(tier, rng):
    """every case of `_cases`, and for a fraction of the mux/plain ones the same case run as the SECOND subscription of
    its pipeline object (after an earlier subscription that completed, failed or was disposed)"""
    pr = rng.sub('resubscription')
    # several source graphs sharing one store (with_memory_store(sources=[…])), each with stateful operators: the states of one
    # graph do not depend on the items of another (generator and oracle shared with C11)
    from props import c11
    for c in c11._sources_cases(tier, rng.sub('sources')):
        yield c
    for c in muxprop.with_preludes(_cases(tier, rng), pr):
        yield c


def oracle(case, r):
    if case['kind'] == 'sources':
        from props import c11
        return c11.sources_violation(case, r)
    v = muxprop.prelude_violation(case, r)
    if v or case.get('share'):
        return v        # the shared-operator variant wraps the pipeline in a tee_map: judged against separately built operators only
    return _oracle(case, r)

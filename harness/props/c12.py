"""C12 — math aggregates are accurate and numerically stable."""
import math
import struct
from fractions import Fraction

import muxgen
import muxprop
from muxprop import real, model_cmds, model_result, compare  # noqa: F401
import pyref
from catalog import dec, enc

PROPERTY = 'C12'
ANCHORS = ['rxsci/math/sum.py', 'rxsci/math/mean.py', 'rxsci/math/min.py', 'rxsci/math/max.py', 'rxsci/math/variance.py',
           'rxsci/math/stddev.py', 'rxsci/math/formal/variance.py', 'rxsci/math/formal/stddev.py', 'rxsci/math/formal/__init__.py']
TRUSTED_BASE = muxprop.TRUSTED_BASE + [
    'IEEE-754 binary64: Lean Float and CPython float are the platform double with correctly rounded + - * / sqrt; compared bit for bit',
    'CPython 3.12 built-in sum() (Neumaier compensated summation of floats) and float ** 2 (C pow) are modelled, not verified',
    'the forward-error bound of the variance family is NOT proved: that clause is decided by differential testing against exact '
    'rational arithmetic (fractions.Fraction), labelled as testing']
ASSUMPTIONS = muxprop.ASSUMPTIONS + ['finite doubles, |ints| < 2^53, no overflow of intermediate sums']
RULE = ('float / int sequences of length 0..(quick 300, thorough 10^4) built from: large common offsets (mean/std up to 1e6), tiny and huge '
        'scales (1e-150..1e150), constants, negatives, centred integers, zeros; each of sum, mean, min, max, variance, stddev, formal.variance, '
        'formal.stddev in streaming and reduce mode, with and without key_mapper, on plain and multiplexed sources (also two interleaved keys); '
        'non-trivial = at least three distinct values; distinct by SHA-1 of the case')
ORACLE_DOC = ('every emitted value vs the exact statistic of the items seen so far computed with fractions.Fraction; relative error bound '
              'C*n*2^-53*kappa with kappa computed exactly (sum: sum|x|/|sum x|; mean the same; variance: sqrt(sum x^2 / sum (x-mean)^2)); '
              'variance of fewer than two items is 0; streaming value after the last item equals the reduce value')
KNOWN_MATCHERS = {}
U = 2.0 ** -53
C = 64


def f2j(x):
    return enc(float(x)) if isinstance(x, float) else x


def gen_seq(rng, tier):
    n = rng.choice([0, 1, 2, 3, 5, 10, 30, 64, 100, 128, 256, 300]) if tier != 'thorough' else rng.choice([0, 1, 2, 3, 10, 100, 128, 512, 1000, 1024, 3000, 4096, 10000])
    kind = rng.choice(['offset', 'offset', 'scale', 'const', 'ints', 'centred', 'mixed', 'zeros', 'uniform', 'bigsmall', 'nonneg', 'nonpos', 'offset_mixed', 'bigints'])
    if kind == 'offset':
        off = rng.choice([1e3, 1e6, -1e6, 12345.678])
        sd = rng.choice([1.0, 0.001, 1.0])
        xs = [off + sd * rng.gauss(0, 1) for _ in range(n)]
    elif kind == 'offset_mixed':
        # ints and floats in one sample (what a JSON parser yields), an int first, a large offset and a small spread
        off = rng.choice([10 ** 6, -10 ** 6, 10 ** 7])
        sd = rng.choice([0.3, 0.001, 1.0])
        xs = [(off + rng.choice([-1, 0, 1])) if (i == 0 or rng.random() < 0.3) else off + sd * rng.gauss(0, 1) for i in range(n)]
    elif kind == 'scale':
        sc = rng.choice([1e-150, 1e-30, 1e30, 1e150])
        xs = [sc * rng.gauss(0, 1) for _ in range(n)]
    elif kind == 'const':
        c = rng.choice([0.1, 3.0, -7.25, 1e6 + 0.1])
        xs = [c] * n
    elif kind == 'ints':
        xs = [rng.randint(-1000, 1000) for _ in range(n)]
    elif kind == 'bigints':
        # Python ints that each fit 64 bits while their sum does not (nanosecond timestamps, large counters), spread comparable to
        # the magnitude (well conditioned)
        lo = rng.choice([10 ** 18, 10 ** 16, 4 * 10 ** 18])
        xs = [rng.choice([1, -1] if rng.random() < 0.3 else [1]) * rng.randint(lo, 2 * lo) for _ in range(n)]
    elif kind == 'centred':
        xs = []
        for _ in range(n // 2):
            v = rng.randint(1, 50)
            xs += [-v, v]
        xs = ([0] + xs) if rng.random() < 0.5 else xs
    elif kind == 'mixed':
        xs = [rng.choice([rng.randint(-5, 5), rng.gauss(0, 3)]) for _ in range(n)]
    elif kind == 'bigsmall':
        # alternating magnitudes: additions that really round; grouped by parity the small ones form their own key
        big = rng.choice([1e16, -1e16, 3e17])
        xs = [(big if i == 0 else rng.choice([1.0, 1.0, 0.5, 3.0])) for i in range(n)]
    elif kind in ('nonneg', 'nonpos'):
        # the running minimum (maximum) becomes exactly 0 / 0.0 / -0.0 and later items follow
        sg = 1 if kind == 'nonneg' else -1
        xs = [sg * rng.choice([0, 0, 1, 2, 5, 0.0, 3.5, -0.0 if sg < 0 else 0.0]) for _ in range(n)]
    elif kind == 'zeros':
        xs = [0.0] * n
    else:
        xs = [rng.uniform(-1, 1) for _ in range(n)]
    return xs


OPS = ['sum', 'mean', 'min', 'max', 'variance', 'stddev', 'fvariance', 'fstddev']


def _cases(tier, rng):
    yield {'kind': 'mux', 'term': [['fvariance', None, False]], 'items': [1, 2, 4]}
    yield {'kind': 'plain', 'term': [['variance', None, False]], 'items': [f2j(1e6 + 0.1), f2j(1e6 + 0.2), f2j(1e6 + 0.4)]}
    yield {'kind': 'mux', 'term': [['variance', None, False]], 'items': [0, 1, 2, 3, 4]}
    for op in ('min', 'max'):
        for red in (False, True):
            sg = 1 if op == 'min' else -1
            yield {'kind': 'plain', 'term': [[op, None, red]], 'items': [sg * 3, 0, sg * 5, sg * 1]}
            yield {'kind': 'plain', 'term': [[op, None, red]], 'items': [f2j(sg * 7.0), f2j(0.0), f2j(sg * 2.5)]}
    for n_ in (128, 256):
        for red in (False, True):
            yield {'kind': 'mux', 'term': [['fvariance', None, red]], 'items': [f2j(float((i * 37) % 11)) for i in range(n_)]}
    n = {'quick': 400, 'thorough': 5000, 'search': 400}[tier]
    for _ in range(n):
        op = rng.choice(OPS)
        xs = gen_seq(rng, tier)
        if op in ('fvariance', 'fstddev') and len(xs) > 1500:
            xs = xs[:1500]
        if op in ('mean',) and not xs and rng.random() < 0.7:
            xs = [1.5]
        red = rng.random() < 0.4
        km = rng.choice([None, None, ['mul', 2]]) if all(isinstance(x, int) for x in xs) else None
        items = [f2j(x) for x in xs]
        r = rng.random()
        if r < 0.35:
            yield {'kind': 'plain', 'term': [[op, km, red]], 'items': items}
        elif r < 0.85 or len(xs) > 400:
            yield {'kind': 'mux', 'term': [[op, km, red]], 'items': items}
        else:
            # two interleaved keys: items tagged by position parity through a tuple
            tagged = [{'t': [i % 2, it]} for i, it in enumerate(items)]
            yield {'kind': 'mux', 'term': [['group_by', ['nth', 0], [['map', ['nth', 1]], [op, km, red]]]], 'items': tagged, 'grouped': True}


def real(case):      # noqa: F811
    if case['kind'] == 'feedback':
        return muxprop.feedback_real(case)
    r = muxprop.real(case)
    # "the streaming value after the last item equals the reduce value": the same pipeline in the other mode, on the same items
    if not case.get('grouped') and not case.get('prelude') and not case.get('share') and case['kind'] in ('mux', 'plain') \
            and len(case['term']) == 1 and case['items']:
        st = case['term'][0]
        other = dict(case, term=[[st[0], st[1], not st[2]]])
        other.pop('tramp', None)
        o = muxprop.real(other)
        r['other_mode'] = o.get('chunks')
        r['other_raised'] = o.get('raised') or o.get('harness_exc')
    return r


def shrink_candidates(case):
    if case['kind'] == 'feedback':
        return
    for it in muxgen.shrink_items(case['items']):
        c = dict(case)
        c['items'] = it
        yield c


def _vals(case):
    if case.get('grouped'):
        return None
    xs = [dec(x) for x in case['items']]
    st = case['term'][0]
    if st[1] is not None:
        xs = [x * 2 for x in xs]
    return xs


def close(got, exact, n, kappa, absfloor=Fraction(0)):
    if got is None:
        return False
    g = Fraction(got)
    tol = Fraction(C * max(n, 1)) * Fraction(U) * kappa * abs(exact) + absfloor
    return abs(g - exact) <= tol


def judge(op, red, km, xs, outs):
    """outs: list of (number of items seen when the value was emitted, python value or None for an error)"""
    n = len(xs)
    fr = [Fraction(x) for x in xs]
    # exact prefix statistics, computed once (O(n)); S_m = sum x^2 - (sum x)^2 / m exactly
    cs, cabs, csq, cmin, cmax = [Fraction(0)], [Fraction(0)], [Fraction(0)], [None], [None]
    for x in fr:
        cs.append(cs[-1] + x)
        cabs.append(cabs[-1] + abs(x))
        csq.append(csq[-1] + x * x)
        cmin.append(x if cmin[-1] is None or x < cmin[-1] else cmin[-1])
        cmax.append(x if cmax[-1] is None or x > cmax[-1] else cmax[-1])
    for m, v in outs:
        s, sabs, msq = cs[m], cabs[m], csq[m]
        mean = s / m if m else Fraction(0)
        S = (msq - s * s / m) if m else Fraction(0)
        ok = True
        exact = None
        if isinstance(v, float) and (v != v or v in (float('inf'), float('-inf'))):
            # a non-finite result: legitimate only where double arithmetic itself overflows on these items
            if sabs >= Fraction(2) ** 1000 or msq >= Fraction(2) ** 1000:
                continue
            return ('%s(reduce=%s, key_mapper=%s) after %d items (first items %s): emitted %r although every intermediate quantity is far '
                    'inside the range of a double' % (op, red, km, m, xs[:6], v))
        if op == 'sum':
            exact = s
            ok = v is not None and abs(Fraction(v) - exact) <= Fraction(C * max(m, 1)) * Fraction(U) * sabs
        elif op == 'mean':
            if m == 0:
                continue
            exact = mean
            ok = v is not None and abs(Fraction(v) - exact) <= Fraction(C * max(m, 1)) * Fraction(U) * (sabs / m)
        elif op in ('min', 'max'):
            if m == 0:
                ok = v is None
            else:
                exact = cmin[m] if op == 'min' else cmax[m]
                ok = v is not None and Fraction(v) == exact
        else:
            pop = op in ('fvariance', 'fstddev')
            if (m < 2 and not pop) or m == 0:
                exact = Fraction(0)
            else:
                exact = S / (m if pop else m - 1)
            if v is None:
                ok = False
            else:
                g = Fraction(v)
                slack = 1
                if op in ('stddev', 'fstddev'):
                    g = g * g
                    slack = 4
                den = max((m if pop else m - 1), 1)
                bound2 = (Fraction(C * slack * max(m, 1)) * Fraction(U)) ** 2 * (msq * S) / (den * den)
                floor = Fraction(C * slack * max(m, 1)) * Fraction(U) * Fraction(U) * msq / den + Fraction(1, 10 ** 320)
                err = abs(g - exact)
                ok = err * err <= bound2 or err <= floor
                if m < 2 and not pop:
                    ok = Fraction(v) == 0
        if not ok:
            return ('%s(reduce=%s, key_mapper=%s) after %d items (first items %s): emitted %r, exact value %s'
                    % (op, red, km, m, xs[:6], v, (float(exact) if exact is not None else None)))
    return None


def _oracle(case, r):
    if 'harness_exc' in r:
        return 'real code raised: ' + r['harness_exc']
    if r.get('raised'):
        return None
    if case.get('grouped'):
        go = muxprop.group_outputs(case, r)
        st = case['term'][0][2][-1]
        op, red, km = st[0], st[2], st[1]
        for head, outs in (go or []):
            xs = [dec(p)[1] for p in head]
            if km is not None:
                xs = [x * 2 for x in xs]
            if outs is None:
                continue
            vals = [dec(o) for o in outs]
            if red:
                if op == 'mean' and not xs:
                    continue
                if len(vals) != 1:
                    return '%s(reduce=True) emitted %d values for a group of %d items' % (op, len(vals), len(xs))
                pos = [(len(xs), vals[0])]
            else:
                if len(vals) != len(xs):
                    return '%s(reduce=False) emitted %d values for a group of %d items' % (op, len(vals), len(xs))
                pos = [(i + 1, v) for i, v in enumerate(vals)]
            v = judge(op, red, km, xs, pos)
            if v:
                return 'in a group interleaved with another: ' + v
        return None
    xs = _vals(case)
    st = case['term'][0]
    op, red = st[0], st[2]
    chunks = r['chunks'][1:]
    outs = []
    for i, c in enumerate(chunks):
        for o in c:
            outs.append((i, o))
    n = len(xs)
    if op == 'mean' and red and n == 0:
        return None
    want_pos = list(range(n)) if not red else [n]
    if [p for p, _ in outs] != want_pos:
        if any('x' in o for _, o in outs):
            return '%s(reduce=%s) over %d items ended with an error: %s' % (op, red, n, [o for _, o in outs if 'x' in o])
        return '%s(reduce=%s) over %d items emitted at steps %s, expected %s' % (op, red, n, [p for p, _ in outs][:20], want_pos[:20])
    pos = [((p + 1 if not red else n), (dec(o['i']) if 'i' in o else None)) for p, o in outs]
    v = judge(op, red, st[1], xs, pos)
    if v:
        return v
    if r.get('other_mode') is not None and not r.get('other_raised') and n > 0:
        mine = [o for c in chunks for o in c]
        theirs = [o for c in r['other_mode'][1:] for o in c]
        if mine and theirs and all('i' in o for o in mine + theirs):
            a, b = (mine[-1], theirs[-1])
            if muxprop.strict_ne(a, b):
                return ('%s(key_mapper=%s) over %d items (first items %s): the streaming value after the last item and the reduce value differ: '
                        '%s vs %s' % (op, st[1], n, xs[:6], *( (dec(a['i']), dec(b['i'])) if not red else (dec(b['i']), dec(a['i'])) )))
    return None


def nontrivial(case, r):
    return len(set(map(str, case['items']))) >= 3


def tags(case, r):
    if case['kind'] == 'feedback':
        return ['kind=feedback', 'op=' + case['term'][-1][0], 'plain=%s' % case['plain']]
    st = case['term'][-1] if not case.get('grouped') else case['term'][0][2][-1]
    n = len(case['items'])
    return ['kind=' + case['kind'], 'op=' + st[0], 'reduce=%s' % st[2],
            'n=%s' % ('0' if n == 0 else '1' if n == 1 else '2-10' if n <= 10 else '11-300' if n <= 300 else '>300'),
            'key_mapper=%s' % (st[1] is not None), 'grouped=%s' % bool(case.get('grouped'))]


def violation_class(case, text):
    return text.split('(')[0][:30]


def cases(tier, rng):
    """every case of `_cases`, and for a fraction of them the same case run as the SECOND subscription of its pipeline
    object (formal.variance keeps its items in a list that is the seed of a scan)"""
    pr = rng.sub('resubscription')
    # feedback loops on the plain and the keyed path: every aggregate is built on scan; the running value after a follow-up item pushed
    # from inside an on_next includes the item that set it off
    for c in muxprop.feedback_cases(tier, rng.sub('feedback'), plain_share=0.6):
        yield c
    for c in muxprop.with_preludes(_cases(tier, rng), pr, frac=0.25):
        yield c


def model_cmds(case):      # noqa: F811
    return [] if case.get('no_model') else muxprop.model_cmds(case)


def model_result(case, ans):      # noqa: F811
    return {} if case.get('no_model') else muxprop.model_result(case, ans)


def compare(case, r, m):      # noqa: F811
    return None if case.get('no_model') else muxprop.compare(case, r, m)


def oracle(case, r):
    if case['kind'] == 'feedback':
        return muxprop.feedback_violation(case, r)
    v = muxprop.prelude_violation(case, r)
    if v or case.get('share'):
        return v        # the shared-operator variant wraps the pipeline in a tee_map: judged against separately built operators only
    return _oracle(case, r)

"""C03 — mux event protocol is well-formed at every operator boundary."""
import muxgen
import muxprop
from muxprop import real, shrink_candidates  # noqa: F401
from muxprop import wf_monitor, wf_closed

PROPERTY = 'C03'
ANCHORS = ['rxsci/mux/__init__.py', 'rxsci/mux/muxobservable.py', 'rxsci/operators/multiplex.py', 'rxsci/operators/group_by.py',
           'rxsci/data/roll.py', 'rxsci/data/split.py', 'rxsci/data/time_split.py', 'rxsci/operators/tee_map.py',
           'rxsci/state/with_store.py']
TRUSTED_BASE = muxprop.TRUSTED_BASE
ASSUMPTIONS = muxprop.ASSUMPTIONS
RULE = ('random pipelines nested to depth 2 (thorough: 3) from the whole operator catalogue with a recording pass-through operator at '
        'EVERY boundary (between stages, head and tail of every inner pipeline, inside every tee branch); inputs include empty sources, '
        'groups emptied by filters, windows larger than the stream, stride larger than window; raw replayed traces with sparse and '
        'reused indices; non-trivial = the pipeline contains a splitter or a tee; distinct by SHA-1 of the case')
ORACLE_DOC = ('the protocol monitor (twin of Rx.wfStep, cross-checked against the Lean one through the driver) on every real boundary '
              'trace: no event for a key that is not live, no second create of a live key, no two live keys sharing a slot index; every '
              'created key completed when the stream completed')
KNOWN_MATCHERS = {}


def _cases(tier, rng):
    yield {'kind': 'mux', 'term': [['group_by', ['mod', 2], [['filter', ['lt', 0]], ['roll', 3, 2, [['to_list']]]]]], 'items': [1, 2, 3, 4]}
    yield {'kind': 'mux', 'term': [['roll', 5, 2, [['split', ['mod', 2], [['count', True]]]]], ['count', True]], 'items': []}
    yield {'kind': 'mux', 'term': [['roll', 2, 5, [['tee', 'zip', [[['count', False]], [['last']]]]]]], 'items': list(range(12))}
    # time_split: every combination of timeouts / closing item / include flag, with the closing item first, in the
    # middle and last, alone and under group_by and roll (slot reuse)
    for aa in (None, 3):
        for bb in (None, 2):
            for closing in (None, ['mod_eq', 4, 3], ['is_even']):
                for incl in (True, False):
                    cfg = {'time': ['id'], 'active': aa, 'inactive': bb, 'closing': closing, 'include': incl}
                    for items in ([3, 4, 5, 7, 8, 11, 12], [1, 2, 3], [2], [1, 3, 6, 7, 7, 15]):
                        yield {'kind': 'mux', 'term': [['time_split', cfg, [['count', True]]]], 'items': items}
                    yield {'kind': 'mux', 'term': [['group_by', ['mod', 2], [['time_split', cfg, [['last']]]]]], 'items': [3, 4, 5, 7, 8, 11, 12]}
                    yield {'kind': 'mux', 'term': [['roll', 3, 3, [['time_split', cfg, [['to_list']]]]]], 'items': [3, 4, 5, 7, 8, 11, 12]}
    # user callbacks of the splitters that raise on some items (outside the model: judged by the protocol monitor alone —
    # either the exception escapes, or whatever is emitted instead respects the protocol at every boundary)
    for i in range({'quick': 60, 'thorough': 400, 'search': 30}[tier]):
        f = ['raise_if_mod', rng.choice([2, 3, 4]), rng.choice([0, 1])]
        inner = rng.choice([[['count', True]], [['to_list']], [['ignore'], ['sum', None, True]], [['last']]])
        sp = rng.choice([['group_by', f, inner], ['split', f, inner]])
        term = rng.choice([[sp], [['group_by', ['mod', 2], [sp]]], [['roll', 3, 3, [sp]]], [sp, ['count', True]]])
        yield {'kind': 'mux', 'term': term, 'items': muxgen.gen_items(rng), 'no_model': True}
    # mux errors that are not terminal: a raising map upstream of split, ignored inside the segment pipeline and after split;
    # the key goes on, and every boundary must stay well-formed
    for i in range({'quick': 80, 'thorough': 600, 'search': 30}[tier]):
        k, rr = rng.choice([(2, 0), (2, 1), (3, 0), (3, 2), (4, 1)])
        inner = [['ignore']] + rng.choice([[['to_list']], [['count', True]], [['last']], []])
        # split is the splitter that keeps its segment open across a mux error of the parent key (group_by, roll and time_split
        # end their inner lifetimes with the error: a key that goes on afterwards is outside the modelled domain, §I.4)
        sp = ['split', rng.choice([['floordiv', 3], ['mod', 2], ['floordiv', 2]]), inner]
        core = [['map', ['raise_if_mod', k, rr]], sp, ['ignore']]
        term = rng.choice([core, core, [['group_by', ['mod', 2], core]]])
        yield {'kind': 'mux', 'term': term, 'items': muxgen.gen_items(rng), 'no_model': True}
    n = {'quick': 1500, 'thorough': 8000, 'search': 600}[tier]
    for i in range(n):
        nest = 2 if tier != 'thorough' else rng.choice([2, 2, 3])
        g = muxgen.Gen(rng, {'nest': nest, 'max_len': 3})
        term, _ = g.pipe('int', nest)
        if rng.random() < 0.2:
            tr = muxgen.gen_trace(rng)
            if any(s[0] == 'time_split' for s in muxgen.walk(term)):
                continue
            yield {'kind': 'raw', 'term': term, 'trace': tr}
        else:
            mono = any(s[0] == 'time_split' for s in muxgen.walk(term))
            yield {'kind': 'mux', 'term': term, 'items': muxgen.gen_items(rng, kind='mono' if mono else 'int')}


def _oracle(case, r):
    if 'harness_exc' in r:
        return 'real code raised: ' + r['harness_exc']
    if r.get('raised'):
        return None
    fatal = muxprop.has_fatal(r['chunks'])
    if case['kind'] == 'raw':
        tr = [e for c in r['chunks'] for e in c]
        w = wf_monitor(tr)
        if w:
            return 'output boundary: ' + w
        if not fatal and wf_closed(case['trace']) and not wf_closed(tr):
            return 'output boundary: a created key was never completed although every input key was'
        return None
    for lab, tr in sorted((r.get('bounds') or {}).items()):
        w = wf_monitor(tr)
        if w:
            return 'boundary %s: %s' % (lab, w)
        if not fatal and not wf_closed(tr):
            return 'boundary %s: the stream completed while a created key was still live' % lab
    return None


def model_cmds(case):
    return [] if case.get('no_model') else muxprop.model_cmds(case)


def model_result(case, ans):
    return {} if case.get('no_model') else muxprop.model_result(case, ans)


def compare(case, r, m):
    return None if case.get('no_model') else muxprop.compare(case, r, m)


def nontrivial(case, r):
    return muxgen.depth_of(case['term']) >= 1


tags = muxprop.tags


def violation_class(case, text):
    for k in ('not live', 'same slot', 'still live', 'never completed'):
        if k in text:
            return k
    return text[:50]


def cases(tier, rng):
    """every case of `_cases`, and for a fraction of the mux/plain ones the same case run as the SECOND subscription of
    its pipeline object (after an earlier subscription that completed, failed or was disposed)"""
    pr = rng.sub('resubscription')
    return muxprop.with_preludes(_cases(tier, rng), pr)


def oracle(case, r):
    v = muxprop.prelude_violation(case, r)
    if v or case.get('share'):
        return v        # the shared-operator variant wraps the pipeline in a tee_map: judged against separately built operators only
    return _oracle(case, r)

"""C09 — scan/reduce algebra: running folds, final fold, per-key seed isolation."""
import muxgen
import muxprop
from muxprop import real, model_cmds, model_result, compare, shrink_candidates  # noqa: F401
import pyref
from catalog import dec, enc

PROPERTY = 'C09'
ANCHORS = ['rxsci/operators/scan.py', 'rxsci/operators/count.py', 'rxsci/data/to_list.py', 'rxsci/data/to_array.py']
TRUSTED_BASE = muxprop.TRUSTED_BASE
ASSUMPTIONS = muxprop.ASSUMPTIONS + ['a mutating accumulator (list append) is only observed through reduce=True or an immediate snapshot: '
                                      'the values the model computes are immutable']
RULE = ('scan with accumulators add/sub/max/min/count/last/append (append MUTATES and returns its accumulator), seeds given as values '
        'and as factories, reduce on/off, terminator on/off, on one key, on interleaved keys under group_by, on successive lifetimes under '
        'roll/split (slot reuse), on plain observables, empty keys; and count/to_list/batch/distinct_until_changed defined through scan; '
        'non-trivial = at least two items; distinct by SHA-1 of the case')
ORACLE_DOC = ('real outputs vs the left fold written from the statement (i-th output = fold of the first i items from the seed; '
              'reduce = one item at completion, the last fold or the seed; terminator applied once at completion), per key; streaming last '
              'value = reduce value; groups and windows judged separately (seed never shared)')
KNOWN_MATCHERS = {}

ACCS = [(['add'], [0, 1, -5]), (['sub'], [0, 10]), (['max'], [0, -100]), (['min'], [0, 100]), (['count'], [0, 5]), (['last'], [None])]


def scan_terms(rng):
    g, seeds = rng.choice(ACCS)
    return ['scan', g, rng.choice(seeds), rng.random() < 0.5, rng.choice([None, None, ['add', 100], ['neg']]) if g != ['last'] else None]


def _cases(tier, rng):
    yield {'kind': 'mux', 'term': [['scan', ['add'], 0, False, None]], 'items': [1, 2, 3]}
    yield {'kind': 'mux', 'term': [['scan', ['add'], 0, True, None]], 'items': []}
    yield {'kind': 'mux', 'term': [['group_by', ['mod', 2], [['scan', ['append'], {'l': []}, True, None]]]], 'items': [1, 2, 3, 4, 5]}
    yield {'kind': 'mux', 'term': [['roll', 2, 2, [['scan', ['append'], {'l': []}, True, None, 'factory']]]], 'items': [1, 2, 3, 4, 5]}
    yield {'kind': 'mux', 'term': [['split', ['floordiv', 2], [['scan', ['add'], 7, True, ['neg']]]]], 'items': [0, 1, 2, 3, 4]}
    yield {'kind': 'mux', 'term': [['group_by', ['mod', 2], [['scan', ['append_fst'], {'t': [{'l': []}, 0]}, True, None]]]], 'items': [1, 2, 3, 4, 5]}
    yield {'kind': 'mux', 'term': [['roll', 2, 2, [['scan', ['append_fst'], {'t': [{'l': []}, 0]}, True, None]]]], 'items': [1, 2, 3, 4, 5]}
    yield {'kind': 'mux', 'term': [['scan', ['add'], 0, False, None], ['scan', ['add'], 0, False, None]], 'items': [1, 2, 3, 4], 'two_stores': 1}
    # two keys, one folding integers a double cannot represent, the other fed floats (whatever happens to the float key -- on an
    # int-typed state its writes are rejected and ignored here --, the integer key's folds are those of its own items)
    BIG = [2 ** 53 + 1, 2 ** 53 + 3, 2 ** 60 + 7, 1, 3, 5, -(2 ** 53) - 1]
    for _ in range({'quick': 30, 'thorough': 200, 'search': 20}[tier]):
        items = [rng.choice(BIG) if rng.random() < 0.65 else {'f': enc(rng.choice([0.5, 1.5, 2.0, 1e300]))['f']} for _ in range(rng.choice([3, 5, 8, 12]))]
        acc = rng.choice([['add'], ['max'], ['last']]) if rng.random() < 0.7 else ['add']
        yield {'kind': 'mux', 'term': [['group_by', ['is_float'], [['scan', acc, rng.choice([0, 1]), False, None], ['ignore']]]],
               'items': items, 'no_model': True, 'isolate': 1}
    # seeds whose type is a proper subclass of int / float (IntEnum members, numpy scalars, user classes): the fold keeps what the
    # accumulator returns, on both paths (outside the model's values)
    for _ in range({'quick': 24, 'thorough': 200, 'search': 16}[tier]):
        seed = rng.choice([{'subint': 0}, {'subint': 5}, {'subfloat': enc(0.0)}, {'subfloat': enc(0.25)}])
        st = ['scan', ['add'], seed, rng.random() < 0.4, None]
        items = [rng.randrange(9) for _ in range(rng.choice([2, 4, 7]))]
        ctx = rng.choice(['top', 'plain', 'group', 'roll'])
        if ctx == 'top':
            yield {'kind': 'mux', 'term': [st], 'items': items, 'no_model': True}
        elif ctx == 'plain':
            yield {'kind': 'plain', 'term': [st], 'items': items, 'no_model': True}
        elif ctx == 'group':
            yield {'kind': 'mux', 'term': [['group_by', ['mod', 2], [st]]], 'items': items, 'no_model': True}
        else:
            yield {'kind': 'mux', 'term': [['roll', 2, 2, [st]]], 'items': items, 'no_model': True}
    n = {'quick': 1500, 'thorough': 10000, 'search': 600}[tier]
    for _ in range(n):
        r = rng.random()
        if r < 0.35:
            st = scan_terms(rng)
        elif r < 0.6:
            # mutating accumulator: reduce mode, or frozen at once
            if rng.random() < 0.6:
                st = ['scan', ['append'], {'l': []}, True, None] + rng.choice([[], ['factory']])
                st = [st]
            elif rng.random() < 0.5:
                st = [['scan', ['append'], {'l': []}, False, None] + rng.choice([[], ['factory']]), ['map', ['freeze']]]
            else:
                # a tuple seed given as a VALUE that holds a mutable list (only shallowly immutable): copied per lifetime like any seed
                st = [['scan', ['append_fst'], {'t': [{'l': []}, 0]}, True, None]]
        else:
            st = rng.choice([['count', rng.random() < 0.5], ['to_list'], ['batch', rng.choice([1, 2, 3])], ['duc', None]])
        sts = st if isinstance(st[0], list) else [st]
        items = muxgen.gen_items(rng)
        ctx = rng.choice(['top', 'top', 'plain', 'group', 'group', 'roll', 'split', 'roll_group'])
        if ctx == 'top':
            yield {'kind': 'mux', 'term': sts, 'items': items}
            if r < 0.35 and rng.random() < 0.3:
                # two scans in sequence, under one store and under two stores in sequence (each scan then holds state #0 of ITS store)
                two = sts + [scan_terms(rng)]
                yield {'kind': 'mux', 'term': two, 'items': items}
                yield {'kind': 'mux', 'term': two, 'items': items, 'two_stores': 1}
        elif ctx == 'plain':
            if any(s[0] == 'scan' and s[1] == ['append'] for s in sts):
                continue
            yield {'kind': 'plain', 'term': sts, 'items': items}
        elif ctx == 'group':
            yield {'kind': 'mux', 'term': [['group_by', rng.choice([['mod', 2], ['mod', 3], ['key_of']]), sts]], 'items': items}
        elif ctx == 'roll':
            w, s = rng.choice([(2, 2), (3, 1), (3, 2), (1, 1), (2, 3)])
            yield {'kind': 'mux', 'term': [['roll', w, s, sts]], 'items': items}
        elif ctx == 'split':
            yield {'kind': 'mux', 'term': [['split', ['floordiv', 3], sts]], 'items': sorted(items)}
        else:
            yield {'kind': 'mux', 'term': [['group_by', ['mod', 2], [['roll', 2, 2, sts]]]], 'items': items}


def _oracle(case, r):
    if 'harness_exc' in r:
        return 'real code raised: ' + r['harness_exc']
    if r.get('raised') or muxprop.has_fatal(r['chunks']):
        return None
    t = case['term']
    if case.get('isolate'):
        from catalog import fn2
        g = fn2(t[0][2][0][1])
        acc = t[0][2][0][2]
        for j, x in enumerate(case['items']):
            if isinstance(x, int):
                acc = g(acc, x)
                if r['chunks'][j + 1] != [{'i': acc}]:
                    return ('%s over %s: while the integer item #%d was processed the output was %s, the fold of the integer key\'s own items is %s'
                            % (t, case['items'], j, str(r['chunks'][j + 1])[:200], acc))
        return None
    try:
        if t and t[0][0] in ('group_by', 'roll', 'split'):
            # every inner lifetime (group, window, segment): outputs at the inner tail vs the fold of its own items
            import splitoracle
            st = t[0]
            inner = st[3] if st[0] == 'roll' else st[2]
            if inner and inner[0][0] == 'roll':
                return None
            head = (r.get('bounds') or {}).get('/0/in')
            tail = (r.get('bounds') or {}).get(muxprop.tail_label(inner, '/0'))
            if head is None or tail is None:
                return None
            hl = muxprop.lifetimes(head)
            tl = muxprop.lifetimes(tail)
            if len(hl) != len(tl):
                return None
            for h, o in zip(hl, tl):
                if h['key'] != o['key']:
                    return None
                ch, fin = pyref.ref_pipe(inner, [dec(x) for x in h['items']])
                want = [enc(x) for c in ch for x in c] + [enc(x) for x in fin]
                if o['items'] != want:
                    return ('%s on the lifetime %s with items %s inside %s: emitted %s, the fold of its own items is %s'
                            % (inner, h['key'], h['items'], st[0], str(o['items'])[:200], str(want)[:200]))
            return None
        ch, fin = pyref.ref_pipe(t, [dec(x) for x in case['items']])
    except pyref.NotCovered:
        return None
    want = pyref.enc_chunks(ch, fin)
    got = r['chunks'][1:]
    if got != want:
        return '%s over %s: real %s, fold semantics %s' % (t, case['items'], str(got)[:300], str(want)[:300])
    return None


def real(case):      # noqa: F811
    return muxprop.feedback_real(case) if case['kind'] == 'feedback' else muxprop.real(case)


def shrink_candidates(case):      # noqa: F811
    if case['kind'] == 'feedback':
        return iter(())
    return muxprop.shrink_candidates(case)


def model_cmds(case):      # noqa: F811
    return [] if case.get('no_model') else muxprop.model_cmds(case)


def model_result(case, ans):      # noqa: F811
    return {} if case.get('no_model') else muxprop.model_result(case, ans)


def compare(case, r, m):      # noqa: F811
    return None if case.get('no_model') else muxprop.compare(case, r, m)


def nontrivial(case, r):
    return len(case['items']) >= 2


tags = muxprop.tags


def violation_class(case, text):
    return 'lifetime' if 'lifetime' in text else 'fold'


def cases(tier, rng):
    """every case of `_cases`, and for a fraction of the mux/plain ones the same case run as the SECOND subscription of
    its pipeline object (after an earlier subscription that completed, failed or was disposed)"""
    pr = rng.sub('resubscription')
    # feedback loops (a subscriber pushing a follow-up item from inside its on_next): the fold sees the items in the order pushed
    for c in muxprop.feedback_cases(tier, rng.sub('feedback'), plain_share=0.3):
        yield c
    for c in muxprop.with_preludes(_cases(tier, rng), pr):
        yield c


def oracle(case, r):
    if case['kind'] == 'feedback':
        return muxprop.feedback_violation(case, r)
    v = muxprop.prelude_violation(case, r)
    if v or case.get('share'):
        return v        # the shared-operator variant wraps the pipeline in a tee_map: judged against separately built operators only
    return _oracle(case, r)

"""C05 — roll produces exactly the count-based sliding windows, in order."""
import math
import muxgen
import muxprop
from muxprop import real, model_cmds, model_result, compare, shrink_candidates, items_of
import splitoracle

PROPERTY = 'C05'
ANCHORS = ['rxsci/data/roll.py', 'rxsci/state/memory_store.py']
TRUSTED_BASE = muxprop.TRUSTED_BASE
ASSUMPTIONS = muxprop.ASSUMPTIONS
RULE = ('exhaustive (window, stride) in [1..6]^2 x lengths 0..3*density*stride+2 (the slot ring wraps >= 3 times) at top level, '
        'the same sweep thinned under group_by with interleaved keys and nested in roll/split, then random window/stride <= 40 with '
        'lengths <= 400 and random pipelines containing roll; non-trivial = at least two windows are opened; distinct by SHA-1 of the case')
ORACLE_DOC = ('on the real boundary traces around every roll: for each parent key the inner lifetimes are exactly '
              'xs[j*s : j*s+w] for j = 0..ceil(n/s)-1 in opening order, all completed, completions in opening order; '
              'roll(w,s,[to_list]) at top level emits exactly those lists, window j in the chunk of item j*s+w-1 or at completion')
KNOWN_MATCHERS = {}


def dens(w, s):
    return (w + s - 1) // s


def _cases(tier, rng):
    yield {'kind': 'mux', 'term': [['roll', 3, 1, [['to_list']]]], 'items': [0, 1, 2, 3]}
    yield {'kind': 'mux', 'term': [['roll', 3, 2, [['sum', None, True]]]], 'items': [1, 2, 3, 4, 5]}
    yield {'kind': 'mux', 'term': [['roll', 5, 2, [['to_list']]]], 'items': list(range(9))}
    hi = 6 if tier != 'quick' else 5
    for w in range(1, hi + 1):
        for s in range(1, hi + 1):
            d = dens(w, s)
            top = 3 * d * s + 2
            lens = range(0, top + 1) if tier != 'quick' else sorted(set([0, 1, w - 1, w, w + 1, s, s + 1, d * s, d * s + 1, 2 * d * s + 1, top]))
            for n in lens:
                if n < 0:
                    continue
                yield {'kind': 'mux', 'term': [['roll', w, s, [['to_list']]]], 'items': list(range(n))}
            # interleaved keys under group_by, and nested
            n = 2 * d * s + 3
            yield {'kind': 'mux', 'term': [['group_by', ['mod', 3], [['roll', w, s, [['to_list']]]]]], 'items': list(range(n + w))}
            if (w + s) % 2 == 0 or tier != 'quick':
                yield {'kind': 'mux', 'term': [['roll', 4, 3, [['roll', w, s, [['to_list']]]]]], 'items': list(range(n))}
                yield {'kind': 'mux', 'term': [['split', ['floordiv', 5], [['roll', w, s, [['count', True]]]]]], 'items': list(range(n))}
    # roll fed with hand-made mux traces: key indices that appear in descending / sparse order and are reused (the slots of a
    # key are key_index*density + offset, whatever the order in which the keys were first created)
    yield {'kind': 'raw', 'term': [['roll', 3, 1, [['to_list']]]],
           'trace': [['c', [2]], ['n', [2], 1], ['c', [0]], ['n', [0], 5], ['n', [2], 2], ['n', [0], 6], ['n', [2], 3], ['n', [0], 7],
                     ['n', [2], 4], ['d', [2]], ['d', [0]]]}
    for _ in range({'quick': 60, 'thorough': 600, 'search': 40}[tier]):
        w, s = rng.choice([(2, 1), (3, 1), (3, 2), (4, 2), (5, 2), (4, 3), (2, 3), (3, 3)])
        yield {'kind': 'raw', 'term': [['roll', w, s, [rng.choice([['to_list'], ['count', True]])]]],
               'trace': muxgen.gen_trace(rng, n_events=rng.choice([10, 20, 40]))}
    # roll nested in roll under group_by with interleaved keys: inner key indices first appear out of order
    for (w, s) in ((3, 1), (3, 2), (4, 2)):
        yield {'kind': 'mux', 'term': [['group_by', ['mod', 2], [['roll', 3, 1, [['roll', w, s, [['to_list']]]]]]]], 'items': list(range(14))}
    nrand = {'quick': 450, 'thorough': 3000, 'search': 300}[tier]
    for _ in range(nrand):
        r = rng.random()
        if r < 0.4:
            w, s = rng.randint(1, 40), rng.randint(1, 40)
            n = rng.choice([0, 1, w, w + s, rng.randint(0, 400)])
            if tier == 'quick':
                n = min(n, 120)
            inner = rng.choice([[['to_list']], [['count', True]], [['last']], [['sum', None, True]]])
            yield {'kind': 'mux', 'term': [['roll', w, s, inner]], 'items': [rng.randint(-5, 50) for _ in range(n)]}
        else:
            g = muxgen.Gen(rng, {'nest': 1, 'time_split': False})
            inner, _ = g.pipe('int', 1)
            w, s = rng.choice([(1, 1), (2, 1), (3, 1), (3, 2), (2, 2), (3, 3), (2, 3), (1, 3), (5, 2), (4, 3), (7, 3), (10, 3)])
            pre = rng.choice([[], [['group_by', ['mod', 2], None]], [['split', ['floordiv', 4], None]], [['roll', 3, 2, None]]])
            term = [['roll', w, s, inner]]
            if pre:
                p = list(pre[0])
                p[-1] = term
                term = [p]
            yield {'kind': 'mux', 'term': term, 'items': muxgen.gen_items(rng, n=rng.choice([0, 3, 8, 15, 30]))}


def _oracle(case, r):
    if 'harness_exc' in r:
        return 'real code raised: ' + r['harness_exc']
    if case['kind'] == 'raw' and not r.get('raised') and not muxprop.has_fatal(r['chunks']):
        # every lifetime of the replayed trace: the windows of its own items, in opening order, whatever its key index
        t = case['term']
        if not (len(t) == 1 and t[0][0] == 'roll' and t[0][3] in ([['to_list']], [['count', True]])):
            return None
        w, s = t[0][1], t[0][2]
        out = [e for c in r['chunks'] for e in c]
        hl, tl = muxprop.lifetimes(case['trace']), muxprop.lifetimes(out)
        if len(hl) != len(tl):
            return 'roll(%d,%d) over the trace %s: %d key lifetimes in, %d out' % (w, s, case['trace'], len(hl), len(tl))
        for h, o in zip(hl, tl):
            xs = h['items']
            wins = [xs[j * s:j * s + w] for j in range((len(xs) + s - 1) // s)]
            want = [{'l': x} for x in wins] if t[0][3] == [['to_list']] else [len(x) for x in wins]
            if h['closed'] and (h['key'] != o['key'] or o['items'] != want):
                return ('roll(%d,%d) on the key %s (index %d) with items %s replayed among other keys emitted %s, its windows are %s'
                        % (w, s, h['key'], h['key'][0], xs, str(o['items'])[:200], str(want)[:200]))
        return None
    if case['kind'] != 'mux' or r.get('raised') or muxprop.has_fatal(r['chunks']):
        return None
    v = splitoracle.check_sites(case['term'], case['items'], r.get('bounds') or {}, ('roll',))
    if v:
        return v
    t = case['term']
    if len(t) == 1 and t[0][0] == 'roll' and t[0][3] == [['to_list']]:
        w, s = t[0][1], t[0][2]
        xs = case['items']
        n = len(xs)
        want = [[] for _ in range(n + 2)]
        for j in range((n + s - 1) // s):
            win = {'i': {'l': xs[j * s:j * s + w]}}
            last = j * s + w - 1
            want[last + 1 if last < n else n + 1].append(win)
        if r['chunks'] != want:
            return 'roll(%d,%d,[to_list]) over %d items emitted %s, expected %s' % (w, s, n, str(r['chunks'])[:400], str(want)[:400])
    return None


def nontrivial(case, r):
    for st in muxgen.walk(case['term']):
        if st[0] == 'roll' and len(case.get('items') or case.get('trace') or []) > st[2]:
            return True
    return False


def tags(case, r):
    t = muxprop.tags(case, r)
    for st in muxgen.walk(case['term']):
        if st[0] == 'roll':
            w, s = st[1], st[2]
            t.append('stride%swindow' % ('<' if s < w else '=' if s == w else '>'))
            t.append('w%%s%s0' % ('=' if w % s == 0 else '!='))
            if len(case.get('items') or case.get('trace') or []) >= 3 * dens(w, s) * s:
                t.append('ring-wrapped>=3')
    return t


def violation_class(case, text):
    for k in ('out of opening order', 'never completed', 'inner lifetimes', 'emitted'):
        if k in text:
            return k
    return text[:60]


def cases(tier, rng):
    """every case of `_cases`, and for a fraction of the mux/plain ones the same case run as the SECOND subscription of
    its pipeline object (after an earlier subscription that completed, failed or was disposed)"""
    pr = rng.sub('resubscription')
    return muxprop.with_preludes(_cases(tier, rng), pr)


def oracle(case, r):
    v = muxprop.prelude_violation(case, r)
    if v or case.get('share'):
        return v        # the shared-operator variant wraps the pipeline in a tee_map: judged against separately built operators only
    return _oracle(case, r)

"""C10 — per-key sequence operators match their list semantics."""
import itertools
import muxgen
import muxprop
from muxprop import real, model_cmds, model_result, compare, shrink_candidates  # noqa: F401
import pyref
from catalog import enc, dec

PROPERTY = 'C10'
ANCHORS = ['rxsci/operators/first.py', 'rxsci/operators/last.py', 'rxsci/operators/take.py', 'rxsci/operators/distinct.py',
           'rxsci/operators/distinct_until_changed.py', 'rxsci/data/lag.py', 'rxsci/data/pad.py', 'rxsci/operators/start_with.py',
           'rxsci/data/batch.py', 'rxsci/data/sort.py', 'rxsci/data/to_deque.py']
TRUSTED_BASE = muxprop.TRUSTED_BASE + ['Python sorted() is assumed to be a stable sort (sort is a to_list/sorted/to_deque wrapper)']
ASSUMPTIONS = muxprop.ASSUMPTIONS
RULE = ('every sequence operator x parameters 0..5 x all item sequences over {0,1,None-producing,...} of length 0..6 (thorough: 0..8) '
        'with repeated values and None items, per key on multiplexed sources (single key, and two interleaved keys under group_by) and on '
        'plain observables where supported; sort on tie-heavy inputs; non-trivial = sequence length >= 2; distinct by SHA-1 of the case')
ORACLE_DOC = ('real outputs (and the step at which each appears) vs the list definition of the operator written from the statement '
              '(harness/pyref.py): first/last/take, distinct = first occurrences, distinct_until_changed = one per run, lag(n) = '
              '(x[max(i-n,0)], x[i]), pad_start/pad_end/start_with, batch = chunks of n + final shorter non-empty chunk, sort = stable permutation')
KNOWN_MATCHERS = {}

OPS = ([['first'], ['last']] + [['take', n] for n in (0, 1, 2, 5)] + [['distinct', None], ['distinct', ['mod', 2]],
       ['duc', None], ['duc', ['mod', 2]]] + [['lag', n] for n in (0, 1, 2, 3)] +
       [['pad_start', n, v] for n in (0, 1, 2) for v in (None, 7)] + [['pad_end', n, v] for n in (0, 1, 2) for v in (None, 7)] +
       [['start_with', []], ['start_with', [8, 9]]] + [['batch', n] for n in (1, 2, 3, 4)])
PLAIN_OK = {'first', 'last', 'take', 'duc', 'batch'}


def _cases(tier, rng):
    yield {'kind': 'mux', 'term': [['batch', 3]], 'items': [0, 1, 2]}
    yield {'kind': 'mux', 'term': [['batch', 1]], 'items': [0, 1, 2]}
    yield {'kind': 'mux', 'term': [['batch', 3]], 'items': []}
    yield {'kind': 'mux', 'term': [['map', ['none_if_mod', 2, 0]], ['duc', None]], 'items': [0, 2, 1]}
    L = 5 if tier == 'quick' else 7
    alpha = [0, 1, 2]
    for op in OPS:
        for n in range(0, L + 1):
            seqs = list(itertools.product(alpha, repeat=n))
            if len(seqs) > (12 if tier == 'quick' else 120):
                seqs = rng.sample(seqs, 12 if tier == 'quick' else 120)
            for xs in seqs:
                xs = list(xs)
                pre = [['map', ['none_if_mod', 3, 2]]] if (rng.random() < 0.3 and not (len(op) > 1 and isinstance(op[1], list) and op[0] in ('distinct', 'duc'))) else []   # None items
                yield {'kind': 'mux', 'term': pre + [op], 'items': xs}
                if op[0] in PLAIN_OK and rng.random() < 0.5:
                    yield {'kind': 'plain', 'term': pre + [op], 'items': xs}
                if rng.random() < 0.25:
                    yield {'kind': 'mux', 'term': [['group_by', ['mod', 2], pre + [op]]], 'items': xs + xs}
    # keys whose comparisons answer with ints (1 / 0: truthy but not `True`, as numpy scalars do): outside the model's values,
    # judged by the list semantics alone
    for xs in ([0, 1, 2, 3, 4, 5, 6, 7], [1, 1, 2, 2, 5, 4], [3], [0, 3, 1, 2, 6, 7, 7]):
        for km in (['neint_of', 2], ['neint_of', 3]):
            yield {'kind': 'mux', 'term': [['duc', km]], 'items': xs, 'no_model': True}
            yield {'kind': 'plain', 'term': [['duc', km]], 'items': xs, 'no_model': True}
            yield {'kind': 'mux', 'term': [['group_by', ['mod', 2], [['duc', km]]]], 'items': xs + xs, 'no_model': True}
            yield {'kind': 'mux', 'term': [['distinct', km]], 'items': xs, 'no_model': True}
    # consecutive items that are equal but not the same value (1, 1.0, True; 0, 0.0, -0.0, False): operators whose state IS an item
    # (last, lag, pad_end / pad_start without a value) hand out the item they were given, not an equal one seen earlier
    F = lambda x: enc(float(x))     # noqa: E731
    EQV = [[1, F(1.0), True], [0, F(0.0), False, F(-0.0)], [2, F(2.0)]]
    for _ in range({'quick': 40, 'thorough': 400, 'search': 20}[tier]):
        xs = []
        for _j in range(rng.choice([2, 3, 5])):
            fam = rng.choice(EQV)
            xs += [rng.choice(fam) for _k in range(rng.choice([1, 2, 3]))]
        op = rng.choice([['last'], ['lag', 1], ['lag', 2], ['pad_end', 2, None], ['pad_start', 1, None], ['first'], ['take', 2]])
        yield {'kind': 'mux', 'term': [op], 'items': xs, 'no_model': True}
        yield {'kind': 'mux', 'term': [['group_by', ['const', 7], [op]]], 'items': xs, 'no_model': True}
    # consumers that modify what they are handed in place: an emitted chunk / item belongs to the consumer from then on, what the
    # operator emits next is still defined by the list semantics of ITS input (judged by the list semantics alone)
    for _ in range({'quick': 30, 'thorough': 300, 'search': 20}[tier]):
        n_ = rng.choice([1, 2, 3, 4])
        xs = [rng.randrange(9) for _ in range(rng.choice([3, 5, 8, 11]))]
        term = [['batch', n_], ['map', ['append_mark', -1]]]
        yield {'kind': rng.choice(['mux', 'plain']), 'term': term, 'items': xs, 'no_model': True}
        yield {'kind': 'mux', 'term': [['group_by', ['mod', 2], term]], 'items': xs, 'no_model': True}
        ls = [{'l': [rng.choice([0, 0, 1, 2]), j]} for j in range(rng.choice([3, 5, 8]))]
        term = [['duc', ['nth', 0]], ['map', ['set_first', rng.choice([0, 7])]]]
        yield {'kind': rng.choice(['mux', 'plain']), 'term': term, 'items': ls, 'no_model': True}
    # values whose hashes collide in CPython (hash(-1) == hash(-2)), big ints, equal-but-not-identical keys
    for _ in range({'quick': 40, 'thorough': 600, 'search': 60}[tier]):
        xs = [rng.choice([-1, -2, 0, 2 ** 61 - 1, -1, -2]) for _ in range(rng.choice([2, 3, 5, 8]))]
        yield {'kind': 'mux', 'term': [rng.choice([['distinct', None], ['distinct', ['big_of']], ['duc', None], ['distinct', ['pair_self']]])], 'items': xs}
    for _ in range({'quick': 60, 'thorough': 1500, 'search': 100}[tier]):
        n = rng.choice([0, 1, 2, 5, 9, 20])
        xs = [rng.choice([0, 1, 2, 3, 3, 3]) for _ in range(n)]
        yield {'kind': 'sort', 'items': xs, 'key': rng.choice([None, ['mod', 2], ['neg']]), 'reverse': rng.random() < 0.5}


def _sort_real(case):
    import rx
    import rxsci as rs
    from catalog import fn1, enc
    xs = [(dec(x), i) for i, x in enumerate(case['items'])]     # tagged items make stability observable
    kf = fn1(case['key']) if case['key'] is not None else (lambda v: v)
    out = []
    muxprop.quiet(lambda: rx.from_(xs).pipe(rs.data.sort(key=lambda p: kf(p[0]), reverse=case['reverse'])).subscribe(out.append))
    return {'chunks': [[enc(list(o)) for o in out]]}


_base_real = real


def real(case):   # noqa: F811
    if case['kind'] == 'sort':
        return _sort_real(case)
    return _base_real(case)


_base_cmds = model_cmds


def model_cmds(case):   # noqa: F811
    if case.get('no_model'):
        return []
    if case['kind'] == 'sort':
        return [{'cmd': 'sort', 'items': case['items'], 'key': case['key'], 'reverse': case['reverse']}]
    return _base_cmds(case)


_base_res = model_result


def model_result(case, ans):   # noqa: F811
    if case.get('no_model'):
        return {}
    if case['kind'] == 'sort':
        if 'error' in ans[0]:
            return {'model_error': ans[0]['error']}
        return {'chunks': [ans[0]['out']]}
    return _base_res(case, ans)


_base_cmp = compare


def compare(case, r, m):   # noqa: F811
    if case.get('no_model'):
        return None
    if case['kind'] == 'sort':
        if 'model_error' in m:
            return 'model: ' + m['model_error']
        return None if r['chunks'] == m['chunks'] else 'sort: real=%s model=%s' % (r['chunks'], m['chunks'])
    return _base_cmp(case, r, m)


def _oracle(case, r):
    if 'harness_exc' in r:
        return 'real code raised: ' + r['harness_exc']
    if case['kind'] == 'sort':
        from catalog import fn1, enc
        kf = fn1(case['key']) if case['key'] is not None else (lambda v: v)
        xs = [(dec(x), i) for i, x in enumerate(case['items'])]
        want = sorted(xs, key=lambda p: kf(p[0]), reverse=case['reverse'])   # stable by definition
        want = [enc(list(w)) for w in want]
        return None if r['chunks'][0] == want else 'sort emitted %s, expected stable order %s' % (r['chunks'][0], want)
    t = case['term']
    if r.get('raised'):
        return None
    if case['kind'] == 'plain' and not case['items'] and any(s_[0] in ('first', 'last') for s_ in t):
        return None      # RxPY first()/last() raise on an empty plain sequence by design
    try:
        if case['kind'] == 'mux' and t and t[0][0] == 'group_by':
            go = muxprop.group_outputs(case, r)
            for xs_, outs_ in (go or []):
                ch, fin = pyref.ref_pipe(t[0][2], [dec(x) for x in xs_])
                from catalog import enc
                want_ = [enc(x) for c in ch for x in c] + [enc(x) for x in fin]
                if muxprop.strict_ne(outs_, want_):
                    return '%s on the group with items %s (interleaved with another group): real %s, list semantics %s' % (
                        t[0][2], xs_, str(outs_)[:200], str(want_)[:200])
            return None
        xs = [dec(x) for x in case['items']]
        ch, fin = pyref.ref_pipe(t, xs)
    except pyref.NotCovered:
        return None
    want = pyref.enc_chunks(ch, fin)
    if case['kind'] == 'mux':
        want = [[]] + want
        got = r['chunks']
    else:
        got = r['chunks'][1:] if len(r['chunks']) == len(want) + 1 else r['chunks']
        # plain first/take complete early: the statement is about WHICH items, not when the stream ends
        if [o for c in got for o in c] == [o for c in want for o in c]:
            return None
    if muxprop.strict_ne(got, want):
        return '%s over %s: real %s, list semantics %s' % (t, case['items'], str(got)[:300], str(want)[:300])
    return None


def nontrivial(case, r):
    return len(case['items']) >= 2


def tags(case, r):
    if case['kind'] == 'sort':
        return ['kind=sort', 'reverse=%s' % case['reverse'], 'key=%s' % (case['key'] or ['id'])[0]]
    return muxprop.tags(case, r)


def violation_class(case, text):
    if case['kind'] == 'sort':
        return 'sort'
    return [s[0] for s in case['term']][-1]


def cases(tier, rng):
    """every case of `_cases`, and for a fraction of the mux/plain ones the same case run as the SECOND subscription of
    its pipeline object (after an earlier subscription that completed, failed or was disposed)"""
    pr = rng.sub('resubscription')
    return muxprop.with_preludes(_cases(tier, rng), pr)


def oracle(case, r):
    v = muxprop.prelude_violation(case, r)
    if v or case.get('share'):
        return v        # the shared-operator variant wraps the pipeline in a tee_map: judged against separately built operators only
    return _oracle(case, r)

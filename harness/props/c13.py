"""C13 — item-level errors on multiplexed streams are isolated and routable."""
import muxgen
import muxprop
import muxreal
from muxprop import real  # noqa: F401
from catalog import dec, enc, fn1, fn2

PROPERTY = 'C13'
ANCHORS = ['rxsci/operators/map.py', 'rxsci/operators/filter.py', 'rxsci/operators/scan.py', 'rxsci/error/ignore.py',
           'rxsci/error/map.py', 'rxsci/error/router.py', 'rxsci/operators/multiplex.py']
TRUSTED_BASE = muxprop.TRUSTED_BASE
ASSUMPTIONS = muxprop.ASSUMPTIONS
RULE = ('map / starmap / filter / scan with user functions that raise on a chosen residue class of items (first, last, consecutive, all '
        'items failing), each followed directly by ignore, error.map, the error router (dead letter subscribed before the stream), or by '
        'nothing; 1..3 keys under group_by with interleaved items; a stateful operator downstream of the handler; non-trivial = at least one '
        'item fails and one succeeds; distinct by SHA-1 of the case')
ORACLE_DOC = ('with ignore / router the main output must equal the REAL run of the same pipeline on the input without the failing items (for '
              'scan: without the items on which the accumulator raised, the accumulator being unchanged by a raise); with error.map the mapped '
              'item must appear at the position of the failing item; the dead letter must receive one exception per failing item, in order, '
              'then complete; without handler the run must end with on_error at the first failing item')
KNOWN_MATCHERS = {}


def failing_op(rng):
    k, r = rng.choice([(2, 0), (2, 1), (3, 0), (3, 2), (1, 0), (4, 1)])
    kind = rng.choice(['map', 'map', 'filter', 'scan', 'scan_reduce', 'starmap'])
    # the exception the user function raises: any class (an operator must not mistake it for one of its own)
    f = ['raise_if_mod', k, r] + rng.choice([[], [], ['TypeError'], ['KeyError'], ['ZeroDivisionError'], ['AttributeError'], ['IndexError'], ['FalsyError']])
    if kind == 'map':
        return [['map', f]], (k, r), 'map'
    if kind == 'starmap':
        return [['map', ['pair_self']], ['starmap', f]], (k, r), 'starmap'
    if kind == 'filter':
        if rng.random() < 0.3:
            # the predicate returns; its answer cannot be used as a condition (ValueError when evaluated): an error of that item
            return [['filter', ['amb_if_mod', k, r]]], (k, r), 'filter_amb'
        return [['filter', f]], (k, r), 'filter'
    return [['scan', f, 0, kind == 'scan_reduce', None]], (k, r), 'scan'


def _cases(tier, rng):
    yield {'kind': 'mux', 'term': [['map', ['raise_if_mod', 2, 0]], ['ignore'], ['count', False]], 'items': [1, 2, 3]}
    yield {'kind': 'mux', 'term': [['map', ['raise_if_mod', 2, 0]], ['route'], ['to_list']], 'items': [1, 2, 3, 4]}
    yield {'kind': 'mux', 'term': [['scan', ['raise_if_mod', 3, 0], 0, False, None], ['err_map', -1], ['to_list']], 'items': [1, 3, 2]}
    yield {'kind': 'mux', 'term': [['map', ['raise_if_mod', 2, 0]]], 'items': [1, 2, 3]}
    # an accumulator that changes the object it was given BEFORE it raises (records the item in a list, then validates it).  A raise on
    # the first item(s) of a key lifetime happens on a seed copy nobody else holds: the item must be as if absent.  (After a success
    # the stored accumulator IS the object the function changes, so later failing items are outside the statement's reach: not generated.)
    yield {'kind': 'mux', 'term': [['group_by', ['mod', 2], [['scan', ['append_raise_if_mod', 4, 1], {'l': []}, True, None], ['ignore']]]],
           'items': [1, 2, 3, 4, 7], 'fail': [4, 1], 'op': 'scan'}
    yield {'kind': 'mux', 'term': [['scan', ['append_raise_if_mod', 3, 0], {'l': []}, True, None, 'factory'], ['ignore']],
           'items': [3, 6, 1, 2], 'fail': [3, 0], 'op': 'scan'}
    for _ in range(30 if tier == 'quick' else 200):
        k, r = rng.choice([(2, 0), (2, 1), (3, 0), (3, 2), (4, 1)])
        m = rng.choice([0, 2, 3])
        ok_seen, items = set(), []
        for x in [rng.randint(0, 30) for _ in range(rng.choice([2, 3, 5, 8, 13]))]:
            g = x % m if m else 0
            if x % k == r and g in ok_seen:
                continue            # a failing item after a success of its key: dropped (see above)
            if x % k != r:
                ok_seen.add(g)
            items.append(x)
        red = rng.random() < 0.6
        sc = ['scan', ['append_raise_if_mod', k, r], {'l': []}, red, None] + rng.choice([[], ['factory']])
        pipe = [sc, rng.choice([['ignore'], ['ignore'], ['route']])] + ([] if red else [['map', ['freeze']]])
        if m:
            pipe = [['group_by', ['mod', m], pipe]]
        yield {'kind': 'mux', 'term': pipe, 'items': items, 'fail': [k, r], 'op': 'scan'}
    # replacement values that are falsy / None: the mapped item must still take the place of the failing one
    for v in (None, 0, False, ''):
        yield {'kind': 'mux', 'term': [['map', ['raise_if_mod', 2, 0]], ['err_map', v]], 'items': [2, 1, 4, 4, 3], 'fail': [2, 0], 'op': 'map'}
        yield {'kind': 'mux', 'term': [['group_by', ['mod', 3], [['map', ['raise_if_mod', 2, 0]], ['err_map', v], ['count', False]]]],
               'items': [2, 1, 4, 4, 3, 6], 'fail': [2, 0], 'op': 'map'}
    # a value the typed state array of scan rejects (int seed, float accumulator): one mux error, state unchanged, the key
    # goes on as if the item were absent — from the SEED when the rejected value was the first of the lifetime
    half = {'f': '3fe0000000000000'}
    for seed in (10, 0, -3):
        for red in (False, True):
            for h in (['ignore'], ['route'], ['err_map', -1]):
                for items in ([half, 5, 7], [1, half, 5], [half, half, 2], [4, 6, half]):
                    yield {'kind': 'mux', 'term': [['scan', ['add'], seed, red, None], h], 'items': items, 'fail': [1, 1], 'op': 'typed'}
            # under roll (slot reuse): compared with the model only (the oracle below handles flat and group_by pipelines)
            yield {'kind': 'mux', 'term': [['roll', 2, 2, [['scan', ['add'], seed, red, None], ['ignore']]]], 'items': [1, 2, half, 5, half, 7]}
    # a user function with default arguments under starmap, raising each kind of exception (Python only: judged by the oracle)
    for exc in ('ValueError', 'TypeError', 'KeyError'):
        for k, rr in ((2, 0), (3, 1)):
            yield {'kind': 'mux', 'term': [['map', ['pair_self']], ['starmap', ['raise_default', k, rr, exc]], ['route'], ['to_list']],
                   'items': [1, 2, 3, 4, 6], 'fail': [k, rr], 'op': 'starmap_default', 'exc': exc, 'no_model': True}
    for _ in range({'quick': 150, 'thorough': 1500, 'search': 80}[tier]):
        items = [rng.choice([half, rng.randint(-5, 9), rng.randint(-5, 9)]) for _ in range(rng.choice([1, 2, 3, 5, 8]))]
        h = rng.choice([['ignore'], ['route'], ['err_map', -1], None])
        pipe = [['scan', ['add'], rng.choice([0, 10, -3]), rng.random() < 0.4, None]] + ([h] if h else [])
        if h and rng.random() < 0.4:
            pipe = pipe + rng.choice([[['count', False]], [['to_list']], [['last']]])
        if rng.random() < 0.4:
            pipe = [['group_by', ['const', 0], pipe]] if rng.random() < 0.5 else pipe
        yield {'kind': 'mux', 'term': pipe, 'items': items, 'fail': [1, 1], 'op': 'typed'}
    # an error that is NOT handled inside the pipeline of a group / window / segment surfaces as on_error where that pipeline is
    # demultiplexed: a handler placed AFTER the group_by / roll / split / time_split never sees it
    for h in (['ignore'], ['err_map', -1], ['route']):
        for ctx in (['group_by', ['mod', 2]], ['split', ['floordiv', 2]], ['roll', 2, 2], ['roll', 3, 1]):
            for inner in ([['map', ['raise_if_mod', 3, 0]]], [['scan', ['raise_if_mod', 3, 0], 0, False, None]],
                          [['filter', ['raise_if_mod', 3, 0]], ['count', False]]):
                yield {'kind': 'mux', 'term': [ctx + [inner], h], 'items': [1, 2, 4, 3, 5, 7], 'outer_handler': True}
                yield {'kind': 'mux', 'term': [ctx + [inner], h, ['count', False]], 'items': [3, 1], 'outer_handler': True}
    # an unhandled error raised UPSTREAM of a group_by / split / roll by the FIRST item of its key (no group, segment or window
    # exists yet to carry it) still surfaces as on_error, at that item
    for ctx in (['group_by', ['mod', 2]], ['split', ['floordiv', 2]], ['roll', 2, 1], ['roll', 2, 2]):
        for items in ([3, 1, 2], [1, 3, 2], [3], [6, 3, 1]):
            yield {'kind': 'mux', 'term': [['map', ['raise_if_mod', 3, 0]], ctx + [[['count', False]]]], 'items': items, 'fail': [3, 0], 'op': 'map'}
            yield {'kind': 'mux', 'term': [['group_by', ['mod', 2], [['scan', ['raise_if_mod', 3, 0], 0, False, None], ctx + [[['to_list']]]]]],
                   'items': items, 'outer_first': True}
    n = {'quick': 1500, 'thorough': 10000, 'search': 600}[tier]
    for _ in range(n):
        op, (k, r), kind = failing_op(rng)
        h = rng.choice([['ignore'], ['err_map', -1], ['err_map', None], ['err_map', 0], ['err_map_name'], ['route'], ['route', 'late'], None])
        down = rng.choice([[], [], [['count', False]], [['to_list']], [['scan', ['add'], 0, False, None]], [['last']], [['lag', 1]]])
        if h in (['err_map_name'], ['err_map', None]) and down and down[0][0] == 'scan':
            down = [['to_list']]
        # without a handler the error travels through whatever follows (per-key operators, or a splitter around them)
        # and must still surface as on_error at the demultiplexer, at the step of the first failing item
        if h is None and rng.random() < 0.6:
            down = rng.choice([[['count', False]], [['scan', ['add'], 0, False, None]], [['scan', ['add'], 0, True, None]], [['last']],
                               [['first']], [['take', 2]], [['take', 5]], [['lag', 1]], [['lag', 2]], [['distinct', None]], [['duc', None]],
                               [['pad_start', 1, None]], [['pad_end', 1, None]], [['start_with', [7]]], [['to_list']], [['batch', 2]],
                               [['assert1', 'ne']], [['identity'], ['count', True]],
                               [['roll', 2, 1, [['count', True]]]], [['roll', 2, 2, [['last']]]], [['split', ['mod', 2], [['to_list']]]],
                               [['group_by', ['mod', 2], [['count', False]]]], [['tee', 'merge', [[['count', False]], [['last']]]]],
                               [['tee', 'zip', [[], [['scan', ['add'], 0, False, None]]]]]])
        else:
            down = down if h else []
        pipe = op + ([h] if h else []) + down
        items = muxgen.gen_items(rng, n=rng.choice([1, 2, 3, 5, 8, 13]))
        if kind == 'filter':
            # predicate result of a non-raising call is the item itself: keep items truthy/falsy mixed
            pass
        if rng.random() < 0.5:
            pipe = [['group_by', rng.choice([['mod', 2], ['mod', 3]]), pipe]]
        c = {'kind': 'mux', 'term': pipe, 'items': items, 'fail': [k, r], 'op': 'filter' if kind == 'filter_amb' else kind}
        if kind == 'filter_amb':
            c['no_model'] = True
        yield c


def shrink_candidates(case):
    for it in muxgen.shrink_items(case['items']):
        c = dict(case)
        c['items'] = it
        yield c


def model_cmds(case):
    return [] if case.get('no_model') else muxprop.model_cmds(case)


def model_result(case, ans):
    return {} if case.get('no_model') else muxprop.model_result(case, ans)


def compare(case, r, m):
    if case.get('no_model'):
        return None
    d = muxprop.compare(case, r, m)
    if d:
        return d
    # dead letters: the model's error events at the router's input boundary
    if 'model_error' in m or not m.get('bounds') or muxprop.has_fatal(r['chunks']):
        return None
    want = []
    for st, lab in muxprop.stage_inputs(case['term']):
        if st[0] == 'route' and lab is not None:
            want += [e[2] for e in m['bounds'].get(lab, []) if e[0] == 'e']
    got = [d_ for d_ in r.get('dead', []) if d_ != '<completed>']
    if any(st[0] == 'route' for st in muxgen.walk(case['term'])) and got != want:
        return 'dead letters: real=%s model=%s' % (got, want)
    return None


def _strip(term):
    """the same pipeline without the failing-function stage(s) and the handler, for the comparison run"""
    return term


def _oracle(case, r):
    if 'harness_exc' in r:
        return 'real code raised: ' + r['harness_exc']
    if case.get('op') == 'starmap_default':
        xs = [dec(x) for x in case['items']]
        k, rr = case['fail']
        want = [2 * x for x in xs if x % k != rr]
        fails = [x for x in xs if x % k == rr]
        got = [o['i'] for c in r['chunks'] for o in c if isinstance(o, dict) and 'i' in o]
        dead = r.get('dead', [])
        if r.get('raised') or muxprop.has_fatal(r['chunks']):
            return 'starmap with a handled failing user function ended with an error: %s' % str(r['chunks'])[:300]
        if got != [{'l': want}] or dead != [case['exc']] * len(fails) + ['<completed>']:
            return ('starmap(f) with f(a, b=1, c=0) raising %s on %s, then the error router and to_list, over %s: emitted %s, dead letter %s; '
                    'expected %s and %d routed errors' % (case['exc'], fails, xs, str(got)[:200], dead, want, len(fails)))
        return None
    if case.get('outer_first') and not r.get('raised'):
        xs = [dec(x) for x in case['items']]
        first = [i for i, x in enumerate(xs) if x % 3 == 0]
        pos = [i for i, c in enumerate(r['chunks']) if any('x' in o for o in c)]
        if first and (not pos or pos[0] != first[0] + 1):
            return ('item %s (step %d) makes scan raise upstream of %s and nothing handles the error: it must surface as on_error at that '
                    'item; observed %s' % (xs[first[0]], first[0], muxprop.json.dumps(case['term'][0][2][1])[:100], str(r['chunks'])[:300]))
        return None
    if case.get('outer_handler') and not r.get('raised'):
        xs = [dec(x) for x in case['items']]
        first = [i for i, x in enumerate(xs) if x % 3 == 0]
        pos = [i for i, c in enumerate(r['chunks']) if any('x' in o for o in c)]
        if first and (not pos or pos[0] != first[0] + 1):
            return ('item %s (step %d) makes the user function raise inside %s and nothing handles the error inside that inner pipeline: '
                    'it must surface as on_error where the inner pipeline is demultiplexed, whatever follows; observed %s'
                    % (xs[first[0]], first[0], muxprop.json.dumps(case['term'][0])[:120], str(r['chunks'])[:300]))
        return None
    if r.get('raised') and 'fail' in case and case.get('op') in ('map', 'filter', 'starmap'):
        # the exception of a failing user function (or of evaluating its answer) is an error of that item's key: it must not escape
        # through the source's on_next
        k0, r0 = case['fail']
        en = 'ValueError'
        for st_ in muxgen.walk(case['term']):
            for a in st_[1:]:
                if isinstance(a, list) and a[:1] == ['raise_if_mod'] and len(a) > 3:
                    en = a[3]
        if r['raised'] == en and any(dec(x) % k0 == r0 for x in case['items'] if isinstance(x, int)):
            return ('%s over %s: the %s of the user function (items with x %% %d == %d) escaped through the source instead of becoming one mux '
                    'error of the key' % (muxprop.json.dumps(case['term'])[:200], case['items'], en, k0, r0))
    if r.get('raised') or 'fail' not in case:
        return None
    k, rr = case['fail']
    t = case['term']
    grouped = t[0][0] == 'group_by'
    pipe = t[0][2] if grouped else t
    names = [s[0] for s in pipe]
    hidx = [i for i, s in enumerate(pipe) if s[0] in ('ignore', 'err_map', 'err_map_name', 'route')]
    xs = [dec(x) for x in case['items']]
    typed = case.get('op') == 'typed'
    # 'typed': scan with an int seed; the items that fail are the floats (the typed state array rejects the float accumulator)
    is_fail = (lambda x: isinstance(x, float)) if typed else (lambda x: x % k == rr)
    errname = 'TypeError' if typed else 'ValueError'
    for st_ in muxgen.walk(t):
        for a in st_[1:]:
            if isinstance(a, list) and a[:1] == ['raise_if_mod'] and len(a) > 3:
                errname = a[3]      # the exception class the failing user function raises
    fails = [x for x in xs if is_fail(x)]
    if not hidx:
        # unhandled: on_error at the first failing item, nothing after
        if any(st[0] in ('assert', 'assert1') for st in muxgen.walk(t)):
            return None     # an assert_/assert_1 further down can end the stream earlier with its own error: not judged here
        flat = [o for c in r['chunks'] for o in c]
        if fails:
            first = [i for i, x in enumerate(xs) if is_fail(x)][0]
            if case['op'] == 'filter' and False:
                pass
            got_pos = [i for i, c in enumerate(r['chunks']) if any('x' in o for o in c)]
            if not got_pos:
                return 'no handler: item %s makes the user function raise but the stream did not end with on_error: %s' % (xs[first], str(r['chunks'])[:300])
            if got_pos[0] != first + 1:
                return 'no handler: on_error surfaced at step %d, the first failing item is at step %d' % (got_pos[0] - 1, first)
        elif any('x' in o for o in flat) and not any(st[0] in ('assert', 'assert1') for st in muxgen.walk(t)):
            # (an assert_/assert_1 further down ends the stream with its own error when its predicate fails: not this check's subject)
            return 'no item fails but the stream ended with on_error: %s' % str(r['chunks'])[:300]
        return None
    if muxprop.has_fatal(r['chunks']):
        return 'a handler follows the failing operator but the stream ended with on_error: %s' % str(r['chunks'])[:300]
    h = pipe[hidx[0]]
    # reference run on the REAL code: same pipeline, failing items removed (ignore / route) -- for error.map compare positions
    if h[0] in ('ignore', 'route'):
        got = muxprop.items_of(r['chunks'])
        if grouped:
            # a group exists as soon as one of its items arrived, failing or not: run the group pipeline alone,
            # per group, on the group's non-failing items
            kf = fn1(t[0][1])
            gs = {}
            for x in xs:
                gs.setdefault(kf(x), []).append(x)
            want = []
            for gk, gx in gs.items():
                ref = muxprop.quiet(muxreal.run_mux, pipe, [enc(x) for x in gx if not is_fail(x)], False)
                want += muxprop.items_of(muxreal.trunc_chunks(ref['chunks']))
        else:
            clean_items = [enc(x) for x in xs if not is_fail(x)]
            ref = muxprop.quiet(muxreal.run_mux, t, clean_items, False)
            want = muxprop.items_of(muxreal.trunc_chunks(ref['chunks']))
        if grouped:
            # groups complete in first-appearance order, which removing items can change: compare as multisets of outputs
            key = lambda o: repr(o)   # noqa: E731
            if sorted(got, key=key) != sorted(want, key=key):
                return ('%s over %s: outputs %s differ from the run without the failing items %s'
                        % (muxprop.json.dumps(t)[:200], case['items'], str(got)[:200], str(want)[:200]))
        elif got != want:
            return ('%s over %s: outputs %s differ from the run without the failing items (%s)'
                    % (muxprop.json.dumps(t)[:200], case['items'], str(got)[:200], str(want)[:200]))
        if h[0] == 'route':
            dead = r.get('dead', [])
            if dead != [errname] * len(fails) + ['<completed>']:
                return 'error router: dead letter received %s, expected %d %s then completion' % (dead, len(fails), errname)
    else:
        # error.map: the stage right after the handler sees, per source position, the mapped value in place
        if len(pipe) == hidx[0] + 1 and not grouped and case['op'] in ('map', 'starmap'):
            mapped = h[1] if h[0] == 'err_map' else errname
            want = [[]] + [[{'i': mapped}] if is_fail(x) else [{'i': enc((x, x)[0])}] for x in xs] + [[]]
            if case['op'] == 'starmap':
                return None
            if r['chunks'] != want:
                return 'error.map: real %s, expected the mapped item in place %s' % (str(r['chunks'])[:300], str(want)[:300])
    return None


def nontrivial(case, r):
    if 'fail' not in case:
        return True
    k, rr = case['fail']
    xs = case['items']
    if case.get('op') == 'typed':
        return any(isinstance(x, dict) for x in xs) and any(not isinstance(x, dict) for x in xs)
    return any(x % k == rr for x in xs) and any(x % k != rr for x in xs)


def tags(case, r):
    t = muxprop.tags(case, r)
    if 'fail' in case:
        k, rr = case['fail']
        xs = case['items']
        f = [isinstance(x, dict) for x in xs] if case.get('op') == 'typed' else [x % k == rr for x in xs]
        if f and f[0]:
            t.append('first-item-fails')
        if f and f[-1]:
            t.append('last-item-fails')
        if f and all(f):
            t.append('all-fail')
        if any(a and b for a, b in zip(f, f[1:])):
            t.append('consecutive-fail')
        t.append('failing-op=' + case['op'])
    return t


def violation_class(case, text):
    return text.split(':')[0][:40]


def cases(tier, rng):
    """every case of `_cases`, and for a fraction of the mux/plain ones the same case run as the SECOND subscription of
    its pipeline object (after an earlier subscription that completed, failed or was disposed)"""
    pr = rng.sub('resubscription')
    return muxprop.with_preludes(_cases(tier, rng), pr)


def oracle(case, r):
    v = muxprop.prelude_violation(case, r)
    if v or case.get('share'):
        return v        # the shared-operator variant wraps the pipeline in a tee_map: judged against separately built operators only
    return _oracle(case, r)

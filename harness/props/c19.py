"""C19 — JSON-lines dump/load round-trips objects, with or without compression."""
import gzip
import io
import os
import tempfile
import rx
import zstandard
import rxsci.container.json as rsjson
from rxutil import cut

PROPERTY = 'C19'
ANCHORS = ['rxsci/container/json.py', 'rxsci/data/codec.py', 'rxsci/framing/line.py', 'rxsci/compression/z.py',
           'rxsci/compression/zstd.py', 'rxsci/io/file.py']
TRUSTED_BASE = [
    'Lean 4.33.0 kernel; axioms propext, Classical.choice, Quot.sound only',
    'composition model lean/RxModel/Json.lean over the codec (C17), line framing (C15) and compression wrapper (C16) models; tied to '
    '/repo by running the model on the real file bytes with the real 64 KiB read chunking and comparing the lines with what the real loader parses',
    'library contracts (assumed, tested): orjson/json loads(dumps(o)) == o and dumps emits no raw newline; zlib/zstandard (see C16)',
]
ASSUMPTIONS = ['objects are JSON-representable dicts (nested lists/dicts, 64-bit ints, finite floats, booleans, None values, arbitrary Unicode '
               'scalar strings)', 'encoding utf-8 (other encodings are covered by C17)']
RULE = ('lists of 0..(quick 3000, thorough 30000) random JSON objects with strings containing newlines, quotes, non-ASCII and astral characters; '
        'compression None / gzip / zstd; file sizes from 0 to several 64 KiB read chunks; file path, custom open_obj and file object; '
        'non-trivial = at least two objects and one string needing escapes; distinct by SHA-1 of the case')
ORACLE_DOC = ('objects read back by the real load_from_file must equal the objects written by the real dump_to_file, in order, one item per object')
KNOWN_MATCHERS = {}


def gen_obj(rng, depth=0):
    d = {}
    for k in range(rng.choice([0, 1, 2, 4])):
        key = rng.choice(['a', 'b', 'k%d' % k, 'é', 'new\nline', 'q"uote'])
        r = rng.random()
        if r < 0.25:
            d[key] = rng.choice([0, 1, -1, 2 ** 63 - 1, -2 ** 63, rng.randint(-10 ** 9, 10 ** 9)])
        elif r < 0.4:
            d[key] = rng.choice([0.5, -1.25, 1e100, 3.141592653589793, -0.0, 1e-300])
        elif r < 0.5:
            d[key] = rng.choice([True, False, None])
        elif r < 0.8:
            d[key] = ''.join(rng.choice(['a', 'b', ' ', '\n', '"', '\\', 'é', '😀', '\t', '\r', ' ', '{', ',', '\u2028', '\u2029', '\x85', '\x0c', '\x1c']) for _ in range(rng.choice([0, 1, 5, 40])))
        elif depth < 2:
            d[key] = rng.choice([[gen_obj(rng, depth + 1) for _ in range(rng.choice([0, 1, 2]))], gen_obj(rng, depth + 1), [1, 'x', None]])
        else:
            d[key] = []
    return d


def cases(tier, rng):
    yield {'objs': [], 'compression': None, 'via': 'path'}
    yield {'objs': [], 'compression': 'gzip', 'via': 'path'}
    yield {'objs': [{}, {'a': 'x\ny'}, {}], 'compression': 'zstd', 'via': 'path'}
    yield {'objs': [{'a': i, 's': 'x' * 50} for i in range(3000)], 'compression': None, 'via': 'shortread'}
    # the `encoding` argument, given to writer and reader alike (encodings that write a byte-order mark once per file)
    for encn in ('utf-16', 'utf-32', 'utf-8-sig', 'utf-8'):
        for comp in (None, 'gzip'):
            yield {'objs': [{'a': 1}, {'b': 'é😀'}, {}, {'c': [1, 2]}], 'compression': comp, 'via': 'path', 'encoding': encn}
            yield {'objs': [], 'compression': comp, 'via': 'path', 'encoding': encn}
    for comp in (None, 'gzip', 'zstd'):
        for suffix in ('.gz', '.zst', '.jsonl'):
            yield {'objs': [{'a': 1}, {'b': 'x'}, {}], 'compression': comp, 'via': 'path', 'suffix': suffix}
            yield {'objs': [], 'compression': comp, 'via': 'path', 'suffix': suffix}
        yield {'objs': [{'a': 1}, {'b': 'x'}, {}], 'compression': comp, 'via': 'at_completion'}
        yield {'objs': [{'a': 1}, {'b': 'x'}, {}], 'compression': comp, 'via': 'open_obj'}
        yield {'objs': [{'a': 1}, {'b': 'x'}, {}], 'compression': comp, 'via': 'mem_obj'}
        yield {'objs': [], 'compression': comp, 'via': 'mem_obj'}
    n = {'quick': 120, 'thorough': 800, 'search': 60}[tier]
    for _ in range(n):
        k = rng.choice([0, 1, 2, 5, 50, 300, 300, 1500]) if tier != 'thorough' else rng.choice([0, 1, 5, 100, 1000, 3000])
        if tier == 'thorough' and rng.random() < 0.05:
            k = 30000       # a few MB
        if k >= 300:
            base = [gen_obj(rng) for _ in range(40)]
            objs = [base[rng.randrange(40)] for _ in range(k)]
            if rng.random() < 0.3:
                objs[rng.randrange(k)] = {'big': 'x' * rng.choice([70000, 140000])}
        else:
            objs = [gen_obj(rng) for _ in range(k)]
        yield {'objs': objs, 'compression': rng.choice([None, 'gzip', 'zstd']), 'via': rng.choice(['path', 'path', 'open_obj', 'mem_obj', 'fileobj', 'shortread', 'at_completion']),
               'suffix': rng.choice(['', '', '.jsonl', '.gz', '.zst', '.json.gz', '.jsonl.zst']),
               'encoding': rng.choice([None, None, None, 'utf-16', 'utf-32', 'utf-8-sig'])}


def real(case):
    # the file name, with the extensions people give such files (the content is what `compression` says, not what the name suggests)
    fd, path = tempfile.mkstemp(prefix='verif-c19-', suffix=case.get('suffix', ''))
    # the target already holds an earlier export: dump_to_file replaces it, also when the new dataset is empty
    os.write(fd, b'{"stale": "left over from an earlier export"}\n')
    os.close(fd)
    errs, back = [], []
    opened = []

    def my_open(name, mode, encoding):
        # the documented prototype open_obj(filename, mode, encoding): three parameters, none optional;
        # an opener that keeps its files somewhere else (a store with its own name space): `name` is not a local path
        opened.append(mode)
        return open(name + '.alt', mode)
    store = {}

    class MemFile(io.BytesIO):
        # a file object that is not backed by an OS file (an object store, fsspec, …): no descriptor; its content is committed by close()
        def __init__(self, name, data=b''):
            io.BytesIO.__init__(self, data)
            self._name = name

        def close(self):
            if not self.closed:
                store[self._name] = self.getvalue()
            io.BytesIO.close(self)

    def mem_open(name, mode, encoding):
        opened.append(mode)
        if 'w' in mode:
            return MemFile(name)
        return io.BytesIO(store[name])
    try:
        kw = {'compression': case['compression']}
        if case.get('encoding'):
            kw['encoding'] = case['encoding']
        if case['via'] == 'open_obj':
            kw['open_obj'] = my_open
        if case['via'] == 'mem_obj':
            kw['open_obj'] = mem_open
        if case['via'] == 'at_completion':
            # the dataset pushed by the application (no scheduler involved); the file is read back from inside the completion
            # notification of the dump: by then everything must be in the file
            from rx.subject import Subject
            subj = Subject()

            def read_back():
                rsjson.load_from_file(path, **kw).subscribe(on_next=back.append, on_error=errs.append)
            subj.pipe(rsjson.dump_to_file(path, **kw)).subscribe(on_error=errs.append, on_completed=read_back)
            for o in case['objs']:
                subj.on_next(o)
            subj.on_completed()
            raw = open(path, 'rb').read()
        else:
            rx.from_(case['objs']).pipe(rsjson.dump_to_file(path, **kw)).subscribe(on_error=errs.append)
            if case['via'] == 'mem_obj':
                raw = store.get(path, b'<never committed: the file object was not closed>')
            else:
                raw = open(path + '.alt' if case['via'] == 'open_obj' else path, 'rb').read()
        if case['via'] == 'shortread':
            # a file-like object that legally returns fewer bytes than asked before the end (pipe / socket like)
            class Short(object):
                def __init__(self, data):
                    self.b = io.BytesIO(data)
                    self.k = 0

                def read(self, n=-1):
                    self.k += 1
                    if n is None or n < 0:
                        return self.b.read()
                    return self.b.read(max(1, n // (2 + self.k % 3)))
            rsjson.load_from_file(Short(raw), **{k: v for k, v in kw.items() if k != 'open_obj'}).subscribe(on_next=back.append, on_error=errs.append)
        elif case['via'] == 'at_completion':
            pass
        elif case['via'] == 'fileobj':
            src = io.BytesIO(raw)
            rsjson.load_from_file(src, **{k: v for k, v in kw.items() if k != 'open_obj'}).subscribe(on_next=back.append, on_error=errs.append)
        else:
            rsjson.load_from_file(path, **kw).subscribe(on_next=back.append, on_error=errs.append)
    finally:
        os.unlink(path)
        if os.path.exists(path + '.alt'):
            os.unlink(path + '.alt')
    if case['compression'] == 'gzip':
        plain = gzip.decompress(raw) if raw else b''
    elif case['compression'] == 'zstd':
        plain = zstandard.ZstdDecompressor().decompressobj().decompress(raw) if raw else b''
    else:
        plain = raw
    return {'back': back, 'errors': [type(e).__name__ for e in errs], 'size': len(raw), 'plain': plain}


def model_cmds(case):
    return []       # needs the real file bytes: done in model_result


def model_result(case, ans):
    return {}


def compare(case, r, m):
    if 'harness_exc' in r:
        return 'harness: ' + r['harness_exc']
    if case.get('encoding'):
        return None         # the model reads utf-8 files; other encodings are judged by the round-trip oracle (and C17)
    import common as C
    import json
    try:
        import orjson
        lines = [orjson.dumps(o).decode() for o in case['objs']]
        loads = orjson.loads
    except ImportError:
        lines = [json.dumps(o) for o in case['objs']]
        loads = json.loads
    # the model reads the plain bytes cut at the 64 KiB read boundary (no compression) or at a few arbitrary points
    plain = r['plain']
    step = 64 * 1024
    cuts = list(range(step, len(plain), step)) if case['compression'] is None else [len(plain) // 3, len(plain) // 3, 2 * len(plain) // 3]
    # the model's decoder checks a list length per character (its termination argument): quadratic in the chunk size.
    # Its output does not depend on the chunking (C15_line_rechunk, C17_roundtrip, C19_roundtrip — proved), so the model is
    # additionally cut every KiB; the real loader keeps its own 64 KiB reads.
    cuts = sorted(cuts + list(range(1024, len(plain), 1024)))
    a = C.run_driver([{'cmd': 'json_read', 'chunks': [list(c) for c in cut(plain, cuts)]}])[0]
    if 'exc' in a or 'error' in a:
        if not r['errors']:
            return 'model rejects the file bytes (%s), real loaded them' % (a.get('exc') or a.get('error'))
        return None
    if a['lines'] != lines:
        return 'lines: model read %d lines from the real file, the serializer wrote %d' % (len(a['lines']), len(lines))
    if r['errors']:
        return 'real load failed with %s, the model read the file' % r['errors']
    if [loads(l) for l in a['lines']] != r['back']:
        return 'items: real loader returned %d items, differing from the model lines' % len(r['back'])
    return None


def oracle(case, r):
    if 'harness_exc' in r:
        return 'real code raised: ' + r['harness_exc']
    if r['errors']:
        return ('json dump_to_file/load_from_file(compression=%s, via=%s) of %d objects failed with %s'
                % (case['compression'], case['via'], len(case['objs']), r['errors']))
    if r['back'] != case['objs']:
        n = min(len(r['back']), len(case['objs']))
        for i in range(n):
            if r['back'][i] != case['objs'][i]:
                return 'json round trip (compression=%s): object %d written as %r came back as %r' % (case['compression'], i, case['objs'][i], r['back'][i])
        return 'json round trip (compression=%s): %d objects written, %d read back' % (case['compression'], len(case['objs']), len(r['back']))
    return None


def nontrivial(case, r):
    return len(case['objs']) >= 2


def tags(case, r):
    t = ['compression=%s' % case['compression'], 'via=' + case['via'],
         'objs=%s' % ('0' if not case['objs'] else '1-5' if len(case['objs']) <= 5 else '6-800' if len(case['objs']) <= 800 else '>800')]
    if isinstance(r, dict) and 'plain' in r:
        t.append('chunks=%d' % (len(r['plain']) // 65536 + 1))
    return t


def shrink_candidates(case):
    objs = case['objs']
    if len(objs) > 8:
        c = dict(case)
        c['objs'] = objs[:len(objs) // 2]
        yield c
        c = dict(case)
        c['objs'] = objs[len(objs) // 2:]
        yield c
    else:
        for i in range(len(objs)):
            c = dict(case)
            c['objs'] = objs[:i] + objs[i + 1:]
            yield c


def violation_class(case, text):
    return 'error' if 'failed with' in text else 'roundtrip'

"""C20 — parquet dump/load round-trips rows for every row count and batch size."""
import io
import math
import os
import struct
import tempfile
import rx
import pyarrow as pa
import pyarrow.parquet as pq
import rxsci.container.parquet as rsparquet

PROPERTY = 'C20'
ANCHORS = ['rxsci/container/parquet.py', 'rxsci/data/batch.py', 'rxsci/operators/scan.py']
TRUSTED_BASE = [
    'Lean 4.33.0 kernel; axioms propext, Classical.choice, Quot.sound only',
    'hand-written model lean/RxModel/Parquet.lean (batch(n) as the composed scan|filter|map operator of Ops.lean, create_record, '
    'row groups, loader), tied to /repo by the correspondence check of this run (row ids and row-group sizes of the real file, '
    'rows returned by the real loader, compared with the model run on the same count / sizes)',
    'library contract (assumed, tested): pyarrow ParquetWriter.write(record, row_group_size) appends the rows of the record in row '
    'groups of at most row_group_size; ParquetFile.iter_batches yields every row in order; pa.array/to_pydict round-trip the values of the schema',
    'modelled, not verified: RxPY create/from_/subscribe, the trampoline scheduler the loader schedules on',
]
ASSUMPTIONS = ['rows are dicts with every schema column present and of the column type (None allowed)',
               'records stay below pyarrow\'s 1 Mi default row-group size when row_group_size is None']
RULE = ('row counts 0..(quick 5000, thorough 20000) chosen around multiples of the dump batch size (k*n-1, k*n, k*n+1, fewer than n, 0), '
        'dump batch_size 1..2000, load batch_size 1..2000, row_group_size None or 1..500, compression none/snappy/gzip/zstd, flat and nested '
        '(struct, list<int>, list<float>) schemas with None, NaN, inf, -0.0, empty strings and non-ASCII; file path, custom open_obj or '
        'BytesIO; the file read after the dump and inside its on_completed; the load observable subscribed once or twice; '
        'non-trivial = at least two batches; distinct by SHA-1 of the case')
ORACLE_DOC = ('the dump must complete without error; pyarrow.parquet.read_table on the file (after the dump, and at the moment the dump signals '
              'completion) and the real load_from_file (each subscription) must return exactly the source rows, once each, in order, '
              'floats compared by bit pattern (NaN payloads canonicalised)')
KNOWN_MATCHERS = {}

CODECS = ['none', 'snappy', 'gzip', 'zstd']


def idof(v):
    """row id of an `id` cell (single-string-column schemas carry it as 'r<i>')"""
    if isinstance(v, str):
        try:
            return int(v[1:])
        except ValueError:
            return v
    return v


def schema_of(kind):
    if kind == 'single_int':
        return pa.schema([('id', pa.int64())])
    if kind == 'single_str':
        return pa.schema([('id', pa.string())])
    if kind == 'names':
        # column names as a csv header gives them: blanks, punctuation, names that differ by such a character only
        return pa.schema([('id', pa.int64()), ('unit price', pa.float64()), ('unit_price', pa.float64()), ('a,b', pa.string()),
                          ('x=y', pa.string()), ('(n)', pa.int64()), ('tab\tname', pa.string())])
    fields = [('id', pa.int64()), ('s', pa.string()), ('f', pa.float64())]
    if kind == 'nested':
        fields += [('st', pa.struct([('a', pa.int64()), ('b', pa.float64())])), ('l', pa.list_(pa.int64())), ('lf', pa.list_(pa.float64()))]
    return pa.schema(fields)


FLOATS = [0.0, -0.0, 1.5, -2.25, 1e300, 5e-324, float('inf'), float('-inf'), float('nan'), 0.1, None]
STRS = ['', 'a', 'é😀', 'x' * 40, 'line\nbreak', None, 'same', 'same']


def make_rows(count, kind, salt):
    if kind == 'single_int':
        return [{'id': i} for i in range(count)]
    if kind == 'single_str':
        return [{'id': 'r%d' % i} for i in range(count)]
    if kind == 'names':
        return [{'id': i, 'unit price': i + 0.5, 'unit_price': -1.0 * i, 'a,b': 'r%d' % i, 'x=y': STRS[i % len(STRS)], '(n)': 7 * i,
                 'tab\tname': 'same'} for i in range(count)]
    rows = []
    for i in range(count):
        h = (i * 2654435761 + salt * 40503) & 0xffffffff
        r = {'id': i, 's': STRS[h % len(STRS)], 'f': FLOATS[(h >> 3) % len(FLOATS)]}
        if kind == 'nested':
            r['st'] = None if h % 11 == 0 else {'a': (h >> 5) % 7 - 3, 'b': FLOATS[(h >> 7) % len(FLOATS)]}
            r['l'] = None if h % 13 == 0 else [j for j in range((h >> 9) % 4)]
            r['lf'] = [FLOATS[(h >> (11 + j)) % len(FLOATS)] for j in range((h >> 4) % 3)]
        rows.append(r)
    return rows


def canon(v):
    if isinstance(v, float):
        if math.isnan(v):
            return 'nan'
        return 'f%016x' % struct.unpack('<Q', struct.pack('<d', v))[0]
    if isinstance(v, dict):
        return {k: canon(x) for k, x in v.items()}
    if isinstance(v, (list, tuple)):
        return [canon(x) for x in v]
    return v


def gen_case(rng, tier):
    n = rng.choice([1, 2, 3, 5, 7, 10, 64, 100, 500, 1024, 2000])
    k = rng.choice([0, 1, 1, 2, 3, 5])
    count = max(0, k * n + rng.choice([-1, 0, 0, 1, rng.randint(0, n)]))
    if rng.random() < 0.15:
        count = rng.choice([0, 1, n - 1 if n > 1 else 1])
    limit = 20000 if tier == 'thorough' else 5000
    count = min(count, limit)
    return {'count': count, 'n': n, 'b': rng.choice([1, 2, 3, 10, 100, 1024, 2000, max(1, count), max(1, n)]),
            'rg': rng.choice([None, None, None, 1, 2, 7, 100, 500]), 'compression': rng.choice(CODECS),
            'schema': rng.choice(['flat', 'flat', 'nested', 'nested', 'single_int', 'single_str', 'names']), 'via': rng.choice(['path', 'path', 'fileobj', 'open_obj', 'pathlib']),
            'resub': rng.random() < 0.4, 'salt': rng.randint(0, 1000), 'dump_twice': rng.random() < 0.3,
            'perm': rng.random() < 0.25, 'no_rewind': rng.random() < 0.3}


def cases(tier, rng):
    base = {'b': 1024, 'rg': None, 'compression': 'snappy', 'schema': 'flat', 'via': 'path', 'resub': False, 'salt': 0}
    for count, n in [(0, 1024), (3, 1024), (5, 2), (4, 2), (1, 1), (2, 1), (2048, 1024), (2049, 1024), (7, 3)]:
        c = dict(base)
        c.update(count=count, n=n)
        yield c
    c = dict(base)
    c.update(count=9, n=4, b=2, resub=True, schema='nested', via='fileobj', compression='zstd', rg=3)
    yield c
    # schemas with exactly one column (a record is transposed column by column)
    for kind in ('single_int', 'single_str'):
        for count, n in [(0, 4), (1, 4), (5, 2), (9, 4)]:
            c = dict(base)
            c.update(count=count, n=n, schema=kind)
            yield c
    for count, n in [(0, 4), (1, 4), (5, 2), (9, 4)]:
        c = dict(base)
        c.update(count=count, n=n, schema='names')
        yield c
    # the dump observable subscribed twice (a periodic re-export to the same path): the file holds the rows once
    for count, n in [(3, 8), (7, 3), (4, 2), (0, 4)]:
        c = dict(base)
        c.update(count=count, n=n, dump_twice=True)
        yield c
    # rows that are equal dicts but were built with their keys in another insertion order (rows are records addressed by name)
    for count, n in [(3, 8), (7, 3), (4, 2), (9, 4)]:
        for kind in ('flat', 'nested'):
            c = dict(base)
            c.update(count=count, n=n, schema=kind, perm=True)
            yield c
    for count, n in [(3, 8), (9, 4), (0, 4)]:
        for resub in (False, True):
            c = dict(base)
            c.update(count=count, n=n, via='fileobj', no_rewind=True, resub=resub)
            yield c
    m = {'quick': 70, 'thorough': 900, 'search': 120}[tier]
    for _ in range(m):
        yield gen_case(rng, tier)


def table_rows(t):
    names = t.schema.names
    cols = t.to_pydict()
    return [dict(zip(names, row)) for row in zip(*[cols[n] for n in names])]


def real(case):
    schema = schema_of(case['schema'])
    rows = make_rows(case['count'], case['schema'], case['salt'])
    if case.get('perm'):
        rows = [dict(reversed(list(r.items()))) if i % 2 else r for i, r in enumerate(rows)]
    res = {'completed': 0, 'errors': []}
    path = None
    buf = None
    opened = []
    if case['via'] == 'fileobj':
        buf = io.BytesIO()
        target = buf
    else:
        fd, path = tempfile.mkstemp(prefix='verif-c20-')
        os.close(fd)
        target = path
        if case['via'] == 'pathlib':
            import pathlib
            target = pathlib.Path(path)       # a path given as os.PathLike, with an opener

    handles = []

    def my_open(name, mode='rb', **kw):
        # an opener that keeps track of what it handed out (the file is not finalised by reference counting): what is written
        # reaches the file when the library closes / flushes the object it was given
        opened.append(mode)
        f = open(name, mode)
        handles.append(f)
        return f

    def read_now():
        if buf is not None:
            return pq.read_table(io.BytesIO(buf.getvalue()))
        return pq.read_table(path)

    def on_completed():
        res['completed'] += 1
        try:
            res['at_completion'] = [canon(r) for r in table_rows(read_now())]
        except Exception as e:
            res['at_completion_error'] = type(e).__name__

    try:
        kw = {'batch_size': case['n'], 'row_group_size': case['rg'], 'compression': case['compression']}
        if case['via'] in ('open_obj', 'pathlib'):
            kw['open_obj'] = my_open
        dump = rx.from_(rows).pipe(rsparquet.dump_to_file(target, schema, **kw))
        if case.get('dump_twice') and buf is None:
            # an earlier subscription of the same dump observable wrote the same rows to the same path
            dump.subscribe(on_next=lambda i: None, on_error=lambda e: res['errors'].append('dump1:' + type(e).__name__))
        dump.subscribe(
            on_next=lambda i: None, on_completed=on_completed, on_error=lambda e: res['errors'].append('dump:' + type(e).__name__))
        try:
            data = buf.getvalue() if buf is not None else open(path, 'rb').read()
            res['size'] = len(data)
            pf = pq.ParquetFile(io.BytesIO(data))
            res['groups'] = [pf.metadata.row_group(i).num_rows for i in range(pf.metadata.num_row_groups)]
            t = pf.read()
            res['file_ids'] = [idof(v) for v in t.column('id').to_pylist()]
            res['table'] = [canon(r) for r in table_rows(t)]
        except Exception as e:
            res['read_error'] = type(e).__name__
            data = None
        if data is not None:
            lkw = {'batch_size': case['b']}
            if case['via'] in ('open_obj', 'pathlib'):
                lkw['open_obj'] = my_open
            # a file object: a fresh one, or (no_rewind) the very object the dump wrote to, left where the writer left it —
            # a parquet reader addresses its file by absolute offsets
            src = (buf if case.get('no_rewind') else io.BytesIO(data)) if buf is not None else target
            obs = rsparquet.load_from_file(src, **lkw)
            loads = []
            for k in range(2 if case['resub'] else 1):
                if buf is not None and k and not case.get('no_rewind'):
                    src.seek(0)
                back = []
                done = []
                obs.subscribe(on_next=back.append, on_completed=lambda: done.append(1),
                              on_error=lambda e: res['errors'].append('load:' + type(e).__name__))
                loads.append({'rows': [canon(r) for r in back], 'done': len(done)})
            res['loads'] = loads
    finally:
        if path is not None:
            os.unlink(path)
    res['source'] = [canon(r) for r in rows]
    return res


def model_cmds(case):
    return [{'cmd': 'parquet', 'count': case['count'], 'n': case['n'], 'b': case['b'], 'rg': case['rg']}]


def model_result(case, ans):
    return ans[0]


def compare(case, r, m):
    if 'harness_exc' in r:
        return 'harness: ' + r['harness_exc']
    if 'error' in m:
        return 'model could not run the case: ' + m['error']
    if 'read_error' in r or r['errors']:
        return 'real dump/load failed (%s %s), the model writes and reads the file' % (r.get('read_error'), r['errors'])
    if r['file_ids'] != m['file']:
        return 'file rows: real ids %s..., model %s...' % (diff_at(r['file_ids'], m['file']))
    if r['groups'] != m['groups']:
        return 'row groups: real %s model %s' % (r['groups'][:12], m['groups'][:12])
    for ld in r['loads'][:1]:
        ids = [idof(x['id']) for x in ld['rows']]
        if ids != m['load']:
            return 'loaded rows: real ids %s..., model %s...' % (diff_at(ids, m['load']))
    return None


def diff_at(a, b):
    for i in range(min(len(a), len(b))):
        if a[i] != b[i]:
            return ('differ at %d: %s' % (i, a[max(0, i - 2):i + 3]), b[max(0, i - 2):i + 3])
    return ('%d rows' % len(a), '%d rows' % len(b))


def rows_diff(what, got, src):
    if got == src:
        return None
    for i in range(min(len(got), len(src))):
        if got[i] != src[i]:
            return '%s: row %d is %r, the source row is %r (%d rows, %d source rows)' % (what, i, got[i], src[i], len(got), len(src))
    return '%s: %d rows, the source has %d' % (what, len(got), len(src))


def oracle(case, r):
    if 'harness_exc' in r:
        return 'real code raised: ' + r['harness_exc']
    desc = 'parquet(count=%d, batch_size=%d, load batch_size=%d, row_group_size=%s, %s, %s, %s)' % (
        case['count'], case['n'], case['b'], case['rg'], case['compression'], case['schema'], case['via'])
    if r['errors']:
        return '%s failed with %s' % (desc, r['errors'])
    if r['completed'] != 1:
        return '%s: dump_to_file signalled completion %d times' % (desc, r['completed'])
    if 'read_error' in r:
        return '%s: the written file cannot be read (%s)' % (desc, r['read_error'])
    src = r['source']
    d = rows_diff('file read by pyarrow', r['table'], src)
    if d:
        return desc + ' ' + d
    if 'at_completion_error' in r:
        return '%s: at the moment dump_to_file signals completion the file cannot be read (%s)' % (desc, r['at_completion_error'])
    d = rows_diff('file read when dump_to_file signals completion', r['at_completion'], src)
    if d:
        return desc + ' ' + d
    for k, ld in enumerate(r['loads']):
        d = rows_diff('load_from_file (subscription %d)' % (k + 1), ld['rows'], src)
        if d:
            return desc + ' ' + d
        if ld['done'] != 1:
            return '%s: load_from_file (subscription %d) completed %d times' % (desc, k + 1, ld['done'])
    return None


def nontrivial(case, r):
    return case['count'] > case['n']


def tags(case, r):
    return _tags(case, r) + (['dump-subscribed-twice'] if case.get('dump_twice') and case['via'] != 'fileobj' else [])


def _tags(case, r):
    n, c = case['n'], case['count']
    rel = '0' if c == 0 else 'fewer' if c < n else 'equal' if c == n else 'multiple' if c % n == 0 else 'not-multiple'
    return ['count=' + rel, 'compression=' + case['compression'], 'schema=' + case['schema'], 'via=' + case['via'],
            'rg=%s' % ('none' if case['rg'] is None else 'set'), 'resub=%s' % case['resub'],
            'n=%s' % ('1' if n == 1 else '2-10' if n <= 10 else '11-2000')]


def shrink_candidates(case):
    for key, vals in (('count', [0, 1, 2, 3, case['count'] // 2, case['count'] - 1]), ('n', [1, 2, 3, case['n'] // 2]),
                      ('b', [1, 2, 1024]), ('rg', [None]), ('compression', ['none']), ('schema', ['flat']), ('via', ['path']), ('resub', [False])):
        for v in vals:
            if v != case[key] and (key not in ('n', 'b') or v >= 1) and (key != 'count' or 0 <= v < case['count']):
                c = dict(case)
                c[key] = v
                yield c


def violation_class(case, text):
    if 'failed with' in text or 'cannot be read' in text:
        return 'error'
    if 'signals completion' in text:
        return 'at-completion'
    if 'subscription 2' in text:
        return 'resubscription'
    return 'rows'

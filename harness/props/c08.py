"""C08 — tee_map equals running each branch independently and joining the results."""
import muxgen
import muxprop
import muxreal
from muxprop import real, model_cmds, model_result, compare, shrink_candidates  # noqa: F401

PROPERTY = 'C08'
ANCHORS = ['rxsci/operators/tee_map.py', 'rxsci/mux/muxconnectable.py', 'rxsci/math/dist/__init__.py']
TRUSTED_BASE = muxprop.TRUSTED_BASE
ASSUMPTIONS = muxprop.ASSUMPTIONS
RULE = ('tee_map with 2..4 branches of random pipelines (streaming, filtering, reducing, nested windows, nested tee_map), the three join '
        'modes, on a multiplexed source (top level, and under group_by / roll / split for slot reuse) and on plain observables; branches '
        'emitting different numbers of items; non-trivial = at least two branches emit and at least three items; distinct by SHA-1 of the case')
ORACLE_DOC = ('each branch is run ALONE on the real code over the same input with per-step recording; the outputs are joined by the rule of the '
              'statement (merge: branch order per source event; zip: a tuple each time every branch has produced since the last tuple; '
              'combine_latest: latest value of every branch, None if none yet, on each branch output) and compared step by step with the real tee_map')
KNOWN_MATCHERS = {}


def join_spec(mode, per_branch_chunks):
    """per_branch_chunks[b][step] = list of encoded outputs of branch b at that step"""
    n = len(per_branch_chunks)
    steps = len(per_branch_chunks[0])
    latest = [None] * n
    has = [False] * n
    out = []
    for s in range(steps):
        cur = []
        for b in range(n):
            for o in per_branch_chunks[b][s]:
                if 'i' not in o:
                    cur.append(o)
                    continue
                if mode == 'merge':
                    cur.append(o)
                elif mode == 'zip':
                    latest[b] = o['i']
                    has[b] = True
                    if all(has):
                        cur.append({'i': {'t': list(latest)}})
                        has = [False] * n
                        latest = [None] * n
                else:
                    latest[b] = o['i']
                    cur.append({'i': {'t': list(latest)}})
        out.append(cur)
    return out


def _cases(tier, rng):
    yield {'kind': 'mux', 'term': [['tee', 'zip', [[['count', False]], [['map', ['add', 10]]]]]], 'items': [1, 2, 3]}
    yield {'kind': 'mux', 'term': [['tee', 'combine_latest', [[['filter', ['is_even']]], [['count', True]], [['identity']]]]], 'items': [1, 2, 3, 4]}
    yield {'kind': 'plain', 'term': [['tee', 'zip', [[['sum', None, True]], [['last']], [['first']]]]], 'items': [1, 2, 3, 4]}
    n = {'quick': 1500, 'thorough': 10000, 'search': 600}[tier]
    for _ in range(n):
        nb = rng.choice([2, 2, 3, 4])
        mode = rng.choice(['zip', 'merge', 'combine_latest'])
        plain = rng.random() < 0.3
        g = muxgen.Gen(rng, {'nest': 1, 'max_len': 3, 'dual_only': plain, 'splitters': not plain, 'mux_only_ops': not plain})
        bs = [g.pipe('int', 1, in_tee=True)[0] for _ in range(nb)]
        term = [['tee', mode, bs]]
        mono = any(s[0] == 'time_split' for s in muxgen.walk(term))
        items = muxgen.gen_items(rng, kind='mono' if mono else 'int')
        if plain:
            yield {'kind': 'plain', 'term': term, 'items': items}
            continue
        r = rng.random()
        if r < 0.3 and not mono:
            ctx = rng.choice([['group_by', ['mod', 2]], ['roll', 2, 2], ['roll', 3, 1], ['split', ['floordiv', 3]]])
            term = [ctx + [term]]
        yield {'kind': 'mux', 'term': term, 'items': items}


def _branches_alone(kind, bs, items):
    runner = muxreal.run_mux if kind == 'mux' else muxreal.run_plain
    per = []
    for b in bs:
        rb = muxprop.quiet(runner, b, items) if kind == 'plain' else muxprop.quiet(runner, b, items, False)
        ch = muxreal.trunc_chunks(rb['chunks'])
        if rb.get('raised') or muxprop.has_fatal(ch):
            return None
        per.append(ch)
    return per


def _oracle(case, r):
    if 'harness_exc' in r:
        return 'real code raised: ' + r['harness_exc']
    t = case['term']
    if len(t) == 1 and t[0][0] == 'tee':
        mode, bs = t[0][1], t[0][2]
        per = _branches_alone(case['kind'], bs, case['items'])
        if per is None:
            # some branch run alone ends with on_error (a user function raises in it): the tee_map of the branches must end with
            # on_error while the same source item is processed — an error of a branch is never swallowed by the join
            if r.get('raised'):
                return None
            runner = muxreal.run_mux if case['kind'] == 'mux' else muxreal.run_plain
            steps = []
            for b in bs:
                rb = muxprop.quiet(runner, b, case['items']) if case['kind'] == 'plain' else muxprop.quiet(runner, b, case['items'], False)
                if rb.get('raised'):
                    return None
                ch = muxreal.trunc_chunks(rb['chunks'])
                steps += [i for i, c in enumerate(ch) if any('x' in o for o in c)][:1]
            if not steps:
                return None
            got = [i for i, c in enumerate(r['chunks']) if any('x' in o for o in c)][:1]
            if got != [min(steps)]:
                return ('tee_map(join=%s) of %s over %s: a branch run alone ends with on_error at step %d; the tee_map %s'
                        % (mode, muxprop.json.dumps(bs)[:300], case['items'], min(steps) - 1,
                           ('ends with on_error at step %d' % (got[0] - 1)) if got else 'does not signal an error: ' + str(r['chunks'])[:200]))
            return None
        if r.get('raised') or muxprop.has_fatal(r['chunks']):
            return ('tee_map(join=%s) of %s over %s fails (%s) although every branch run alone on the same input completes normally'
                    % (mode, muxprop.json.dumps(bs)[:300], case['items'], r.get('raised') or [o for c in r['chunks'] for o in c if 'x' in o]))
        want = join_spec(mode, per)
        if r['chunks'] != want:
            for i, (a, b_) in enumerate(zip(r['chunks'], want)):
                if a != b_:
                    return ('tee_map(join=%s) of %s over %s: at step %d the real tee emits %s; the join of the branches run alone gives %s'
                            % (mode, muxprop.json.dumps(bs)[:300], case['items'], i, str(a)[:200], str(b_)[:200]))
        return None
    if r.get('raised') or muxprop.has_fatal(r['chunks']):
        return None
    if len(t) == 1 and t[0][0] in ('group_by', 'roll', 'split') and len(t[0][-1]) == 1 and t[0][-1][0][0] == 'tee':
        # tee under a key-reusing / interleaving parent: every inner lifetime is judged on its own items
        tee = t[0][-1][0]
        mode, bs = tee[1], tee[2]
        bd = r.get('bounds') or {}
        head, tail = bd.get('/0/in'), bd.get('/0/0')
        if head is None or tail is None:
            return None
        hl, tl = muxprop.lifetimes(head), muxprop.lifetimes(tail)
        if len(hl) != len(tl):
            return None
        for h, o in zip(hl, tl):
            if h['key'] != o['key'] or not h['closed']:
                return None
            per = _branches_alone('mux', bs, h['items'])
            if per is None:
                continue
            want = muxprop.items_of(join_spec(mode, per))
            if o['items'] != want:
                return ('tee_map(join=%s) of %s inside %s: the lifetime of key %s with items %s emitted %s; the join of the branches '
                        'run alone on these items gives %s' % (mode, muxprop.json.dumps(bs)[:200], t[0][0], h['key'], h['items'],
                                                              str(o['items'])[:200], str(want)[:200]))
    return None


def nontrivial(case, r):
    return len(case['items']) >= 3


def tags(case, r):
    t = muxprop.tags(case, r)
    for st in muxgen.walk(case['term']):
        if st[0] == 'tee':
            t.append('join=' + st[1])
            t.append('branches=%d' % len(st[2]))
    return t


def violation_class(case, text):
    return case['kind']


def cases(tier, rng):
    """every case of `_cases`, and for a fraction of the mux/plain ones the same case run as the SECOND subscription of
    its pipeline object (after an earlier subscription that completed, failed or was disposed)"""
    pr = rng.sub('resubscription')
    return muxprop.with_preludes(_cases(tier, rng), pr)


def oracle(case, r):
    v = muxprop.prelude_violation(case, r)
    if v or case.get('share'):
        return v        # the shared-operator variant wraps the pipeline in a tee_map: judged against separately built operators only
    return _oracle(case, r)

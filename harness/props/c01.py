"""C01 — multiplexing is transparent: keyed execution equals per-group plain execution."""
import muxgen
import muxprop
import muxreal
from muxprop import shrink_candidates  # noqa: F401

PROPERTY = 'C01'
ANCHORS = ['rxsci/operators/multiplex.py', 'rxsci/operators/group_by.py', 'rxsci/state/with_store.py', 'rxsci/operators/scan.py',
           'rxsci/operators/map.py', 'rxsci/operators/filter.py', 'rxsci/operators/first.py', 'rxsci/operators/last.py',
           'rxsci/operators/take.py', 'rxsci/operators/tee_map.py', 'rxsci/operators/flat_map.py', 'rxsci/operators/assert_.py',
           'rxsci/operators/distinct_until_changed.py', 'rxsci/data/batch.py', 'rxsci/data/to_list.py', 'rxsci/math/mean.py',
           'rxsci/math/variance.py', 'rxsci/state/memory_store.py']
TRUSTED_BASE = muxprop.TRUSTED_BASE
ASSUMPTIONS = muxprop.ASSUMPTIONS + ['C01 preconditions as stated: first/last/mean(reduce) not on an empty group, accumulators keep the seed type, '
                                      'no completion-triggered operator after take/first inside a tee_map branch']
RULE = ('random pipelines of depth 1..6 composed from the dual-mode operators (map, starmap, filter, flat_map, scan, count, sum, mean, min, '
        'max, variance, stddev, formal.variance, formal.stddev, first, last, take, to_list, distinct_until_changed, clip, fill_none, batch, '
        'identity, do_action, assert_, assert_1, tee_map x 3 joins) over 1..6 groups with 1..40 items randomly interleaved; the pipeline runs '
        'inside group_by on the multiplexed path and on rx.from_(group items) on the plain path; progress is excluded (it raises on both '
        'paths, see DESIGN); non-trivial = at least two groups and a stateful stage; distinct by SHA-1 of the case')
ORACLE_DOC = ('REAL multiplexed run bucketed by group (recorded at the tail of the group pipeline) vs REAL plain run of the same pipeline on '
              'that group alone; items and order must be equal whenever the plain run does not raise')
KNOWN_MATCHERS = {}


def gen_case(rng, tier):
    g = muxgen.Gen(rng, {'dual_only': True, 'splitters': False, 'nest': 1, 'no_done_after_early': True, 'max_len': 6,
                         'mux_only_ops': False})
    term, _ = g.pipe('int', 1, n=rng.choice([1, 2, 3, 3, 4, 6]))
    ng = rng.choice([1, 2, 3, 6])
    sizes = [rng.choice([1, 2, 3, 5, 8, 13]) for _ in range(ng)]
    if tier == 'thorough' and rng.random() < 0.2:
        sizes = [rng.choice([20, 40]) for _ in range(ng)]
    order = [gi for gi, s in enumerate(sizes) for _ in range(s)]
    rng.shuffle(order)
    items = [{'t': [gi, rng.choice([0, 1, 2, 3, 4, 5, 6, 7, 9, 12, -1, -4])]} for gi in order]
    case = {'kind': 'dual', 'term': term, 'items': items}
    # the keyed context: group_by (fresh slot per group) or a context that serves successive groups from the SAME slot
    # (segments of split, tumbling windows of roll) — the property quantifies over every multiplexed source
    c = rng.random()
    if c < 0.25:
        case['ctx'] = 'split'
    elif c < 0.45:
        case['ctx'] = 'roll'
        case['w'] = rng.choice([1, 2, 3, 4, 5])
    elif c < 0.55:
        case['ctx'] = 'group2'
    elif c < 0.65:
        # one key (the root key of `multiplex`), the pipeline cut in two, each part under its own state store: what leaves the
        # first store section must still be a MuxObservable for the operators of the second
        case['ctx'] = 'top2'
        case['cut'] = rng.randrange(1, len(term) + 1)
    return case


def _cases(tier, rng):
    yield {'kind': 'dual', 'term': [['take', 2], ['count', False]], 'items': [{'t': [0, 5]}, {'t': [1, 6]}, {'t': [0, 7]}, {'t': [0, 8]}, {'t': [1, 9]}]}
    yield {'kind': 'dual', 'term': [['map', ['none_if_mod', 2, 0]], ['assert1', 'ne']], 'items': [{'t': [0, 2]}, {'t': [0, 2]}, {'t': [0, 3]}]}
    yield {'kind': 'dual', 'term': [['filter', ['truthy_int']], ['count', False]], 'items': [{'t': [0, 1]}, {'t': [0, 2]}, {'t': [0, 3]}]}
    yield {'kind': 'dual', 'term': [['count', False]], 'ctx': 'group2',
           'items': [{'t': [0, 5]}, {'t': [1, 6]}, {'t': [0, 7]}, {'t': [2, 8]}, {'t': [1, 9]}, {'t': [2, 1]}, {'t': [0, 2]}]}
    yield {'kind': 'dual', 'term': [['duc', None], ['take', 3], ['sum', None, True]], 'ctx': 'group2',
           'items': [{'t': [0, 5]}, {'t': [1, 6]}, {'t': [0, 7]}, {'t': [1, 6]}, {'t': [1, 9]}, {'t': [0, 7]}, {'t': [0, 2]}]}
    # tee_map with branches of unequal cadence inside contexts that serve successive groups from the same slot
    odd = ['filter', ['mod_eq', 2, 1]]
    for join in ('zip', 'combine_latest', 'merge'):
        for br in ([[odd], []], [[], [odd]], [[['last']], [['first']]], [[['first']], [['last']]], [[odd], [], [['count', True]]]):
            for ctx in ('split', 'roll'):
                its = [{'t': [g, v]} for g, v in [(0, 2), (0, 3), (1, 4), (1, 6), (1, 7), (0, 1), (0, 8), (1, 5), (1, 5)]]
                c = {'kind': 'dual', 'term': [['tee', join, br]], 'items': its, 'ctx': ctx}
                if ctx == 'roll':
                    c['w'] = 3
                yield c
    # a user function that raises for some items, alone and inside a tee_map branch (first, middle, last): the plain run of a group
    # ends with that error, so the keyed run cannot complete as if nothing had happened
    for _ in range({'quick': 60, 'thorough': 500, 'search': 30}[tier]):
        k, rr = rng.choice([(2, 0), (3, 1), (3, 0), (4, 3)])
        bad = [['map', ['raise_if_mod', k, rr] + rng.choice([[], ['ZeroDivisionError'], ['TypeError']])]]
        good = rng.choice([[['map', ['mul', 2]]], [], [['count', False]]])
        brs = rng.choice([[bad, good], [good, bad], [good, bad, good], [bad, good, good]])
        term = rng.choice([[['tee', rng.choice(['zip', 'combine_latest', 'merge']), brs]], bad, bad + [['count', False]]])
        ng = rng.choice([1, 2, 3])
        items = [{'t': [rng.randrange(ng), rng.choice([0, 1, 2, 3, 4, 5, 6, 7])]} for _ in range(rng.choice([2, 4, 7]))]
        c = {'kind': 'dual', 'term': term, 'items': items, 'raising': True}
        if rng.random() < 0.3:
            c['ctx'] = 'split'
        yield c
    # user functions with effects that a later stage of the same pipeline reads while the same item is processed: an action that
    # records the item followed by a map that looks at the record (the action of an item has run when the next stage sees the item,
    # on both paths), and a work list that a later action extends while flat_map walks it (both paths walk the list itself)
    for _ in range({'quick': 30, 'thorough': 300, 'search': 20}[tier]):
        ng = rng.choice([1, 2, 3])
        if rng.random() < 0.5:
            term = rng.choice([[['do_action', 'log'], ['map', ['peek_log']]], [['do_action', 'log'], ['filter', ['is_even']], ['map', ['peek_log']]],
                               [['map', ['add', 1]], ['do_action', 'log'], ['map', ['peek_log']]]])
            items = [{'t': [rng.randrange(ng), rng.randrange(9)]} for _ in range(rng.choice([2, 4, 7]))]
        else:
            term = [['map', ['reg_list']], ['flat_map'], ['do_action', 'grow', rng.choice([20, 40])]]
            items = [{'t': [rng.randrange(ng), {'l': [rng.randrange(1, 9) for _k in range(rng.choice([1, 2]))]}]} for _ in range(rng.choice([2, 3, 5]))]
        c = {'kind': 'dual', 'term': term, 'items': items, 'no_model': True}
        if rng.random() < 0.3:
            c['ctx'] = 'split'
        yield c
    # flat_map over items that are text: a str is iterated character by character, on both paths
    for _ in range({'quick': 16, 'thorough': 100, 'search': 10}[tier]):
        ng = rng.choice([1, 2, 3])
        vals = [rng.choice(['zw', 'a', '', {'l': ['x', 'y']}, {'l': ['pq']}, {'t': ['u', 'v']}]) for _ in range(rng.choice([2, 4, 6]))]
        term = [['flat_map']] + rng.choice([[], [['count', False]], [['to_list']]])
        c = {'kind': 'dual', 'term': term, 'items': [{'t': [rng.randrange(ng), v]} for v in vals], 'no_model': True}
        if rng.random() < 0.3:
            c['ctx'] = 'split'
        yield c
    # accumulated values whose == is elementwise and has no truth value (numpy arrays, pandas objects): scans, running or reduced,
    # with or without terminator, must treat them as opaque values on both paths (real code against real code, outside the model)
    for _ in range({'quick': 40, 'thorough': 300, 'search': 20}[tier]):
        seed = {'vec': [0] * rng.choice([2, 3])}
        st = ['scan', ['add'], seed, rng.random() < 0.4, rng.choice([None, None, ['id']])] + rng.choice([[], ['factory']])
        term = [st] + rng.choice([[], [['last']], [['take', 2]]])
        ng = rng.choice([1, 2, 3])
        items = [{'t': [rng.randrange(ng), rng.randrange(9)]} for _ in range(rng.choice([2, 4, 7]))]
        c = {'kind': 'dual', 'term': term, 'items': items, 'no_model': True}
        r_ = rng.random()
        if r_ < 0.25:
            c['ctx'] = 'split'
        elif r_ < 0.4:
            c['ctx'], c['w'] = 'roll', 2
        yield c
    n = {'quick': 1500, 'thorough': 10000, 'search': 600}[tier]
    for _ in range(n):
        yield gen_case(rng, tier)


def mux_term(case):
    inner = [['map', ['nth', 1]]] + case['term']
    ctx = case.get('ctx', 'group_by')
    if ctx == 'split':
        return [['split', ['nth', 0], inner]]
    if ctx == 'roll':
        return [['roll', case['w'], case['w'], inner]]
    if ctx == 'top2':
        return inner
    if ctx == 'group2':
        # a group_by nested in a group_by (same key: every outer group has one inner group; the outer groups are interleaved, so
        # several mapper dicts of the inner group_by are live at once and their groups must get distinct indices)
        return [['group_by', ['nth', 0], [['group_by', ['nth', 0], inner]]]]
    return [['group_by', ['nth', 0], inner]]


def groups(case):
    """the groups of the keyed run, in the order their lifetimes are created: label -> items"""
    ctx = case.get('ctx', 'group_by')
    gs = {}
    if ctx == 'top2':
        return {'all': [it['t'][1] for it in case['items']]}
    if ctx == 'split':          # maximal runs of equal group id, all served by the same inner key
        prev, n = object(), -1
        for it in case['items']:
            if it['t'][0] != prev:
                n += 1
                prev = it['t'][0]
            gs.setdefault('s%d' % n, []).append(it['t'][1])
    elif ctx == 'roll':         # tumbling windows, all served by the same inner key
        w = case['w']
        for i, it in enumerate(case['items']):
            gs.setdefault('w%d' % (i // w), []).append(it['t'][1])
    else:
        for it in case['items']:
            gs.setdefault(it['t'][0], []).append(it['t'][1])
    return gs


def real(case):
    mt = mux_term(case)
    r = muxprop.quiet(muxreal.run_mux, mt, case['items'], True, two_stores=case.get('cut') if case.get('ctx') == 'top2' else None)
    r['chunks'] = muxreal.trunc_chunks(r['chunks'])
    r['plain'] = {}
    for g, xs in groups(case).items():
        p = muxprop.quiet(muxreal.run_plain, case['term'], xs)
        r['plain'][str(g)] = muxreal.trunc_chunks(p['chunks'])
    # the property's precondition: first / last / mean(reduce) are not applied to an empty sequence.  A trailing take(0)/first
    # can mask the resulting error on the plain path only (it never subscribes upstream), so the precondition is evaluated on
    # the plain run of every PREFIX of the pipeline that ends right before such a stage.
    r['empty_input'] = False
    for i, st in enumerate(case['term']):
        if st[0] in ('first', 'last') or (st[0] in ('mean', 'variance', 'stddev', 'fvariance', 'fstddev') and st[-1] is True):
            for g, xs in groups(case).items():
                p = muxprop.quiet(muxreal.run_plain, case['term'][:i], xs)
                ch = muxreal.trunc_chunks(p['chunks'])
                if muxprop.has_fatal(ch) or not muxprop.items_of(ch):
                    r['empty_input'] = True
    # a user function that raises in the middle of the pipeline is C13's subject, not C01's; on the plain path a later
    # take(0)/first can mask it (RxPY never subscribes upstream / unsubscribes early) while the keyed path evaluates every
    # stage eagerly.  So when the keyed run ends with an error although no full plain run raises, the precondition
    # "no user function raises" is evaluated on the plain run of every prefix of the pipeline.
    if muxprop.has_fatal(r['chunks']) and not any(muxprop.has_fatal(pl) for pl in r['plain'].values()):
        for g, xs in groups(case).items():
            if raising_prefix(case['term'], xs):
                r['empty_input'] = True
                break
    return r


def raising_prefix(term, xs, depth=0):
    """does the plain run of some prefix of the pipeline — at top level or inside a tee_map branch, fed with what the
    plain prefix before the tee_map delivers — raise on these items?"""
    for i in range(1, len(term) + 1):
        p = muxprop.quiet(muxreal.run_plain, term[:i], xs)
        if muxprop.has_fatal(muxreal.trunc_chunks(p['chunks'])):
            return True
    for i, st in enumerate(term):
        if st[0] == 'tee' and depth < 3:
            p = muxprop.quiet(muxreal.run_plain, term[:i], xs)
            inp = muxprop.items_of(muxreal.trunc_chunks(p['chunks']))
            for b in st[2]:
                if raising_prefix(b, inp, depth + 1):
                    return True
    return False


def model_cmds(case):
    if case.get('no_model'):
        return []
    cmds = [{'cmd': 'mux', 'pipe': mux_term(case), 'items': case['items'], 'bounds': True}]
    for g, xs in groups(case).items():
        cmds.append({'cmd': 'plain', 'pipe': case['term'], 'items': xs})
    return cmds


def model_result(case, ans):
    if case.get('no_model'):
        return {}
    for a in ans:
        if 'error' in a:
            return {'model_error': a['error']}
    m = {'chunks': ans[0]['l1'], 'l2': ans[0]['l2'], 'bounds': ans[0]['bounds'], 'plain': {}}
    for (g, xs), a in zip(groups(case).items(), ans[1:]):
        m['plain'][str(g)] = a['plain']
    return m


def compare(case, r, m):
    if case.get('no_model'):
        return None
    c = dict(case)
    c['kind'] = 'mux'
    c['term'] = mux_term(case)
    d = muxprop.compare(c, r, m)
    if d:
        return d
    if 'model_error' in m:
        return None
    for g in r['plain']:
        if muxprop.strict_ne(r['plain'][g], m['plain'].get(g)):
            return 'plain path, group %s: real=%s model=%s' % (g, str(r['plain'][g])[:300], str(m['plain'].get(g))[:300])
    return None


def dec_item(h):
    return h['t'][1] if isinstance(h, dict) and 't' in h else h


def _oracle(case, r):
    if 'harness_exc' in r:
        return 'real code raised: ' + r['harness_exc']
    if r.get('raised'):
        return None
    if case.get('ctx') == 'top2':
        plain = r['plain']['all']
        if r.get('empty_input') or muxprop.has_fatal(plain):
            return 'precondition-not-met'
        want = muxprop.items_of(plain)
        if muxprop.has_fatal(r['chunks']):
            return ('the plain pipeline %s over %s completes normally with %s but the multiplexed run under two store sections (cut at %d) '
                    'ends with an error %s' % (case['term'], groups(case)['all'], str(want)[:200], case['cut'],
                                               [o for c_ in r['chunks'] for o in c_ if 'x' in o]))
        outs = muxprop.items_of(r['chunks'])
        if muxprop.strict_ne(outs, want):
            return ('%s over %s under two store sections (cut at %d): multiplexed emits %s, plain emits %s'
                    % (case['term'], groups(case)['all'], case['cut'], str(outs)[:300], str(want)[:300]))
        return None
    c = {'term': mux_term(case), 'items': case['items']}
    go = muxprop.group_outputs(c, r)
    if go is None:
        return None
    gs = groups(case)
    order = list(gs.keys())     # insertion order = order in which the lifetimes are created
    if len(go) != len(order) or any([dec_item(h) for h in head] != gs[g] for g, (head, _) in zip(order, go)):
        return None             # the context operator itself misbehaves: that is C04/C05/C06's finding, not C01's
    mux_fatal = muxprop.has_fatal(r['chunks'])
    if case.get('raising') and not mux_fatal:
        for g, pl in r['plain'].items():
            errs = [o['x'] for c_ in pl for o in c_ if 'x' in o]
            if errs and errs[0] in ('ValueError', 'ZeroDivisionError', 'TypeError'):
                return ('group %s with items %s: the plain pipeline %s ends with %s (raised by the user function) but the multiplexed run '
                        'completes normally: %s' % (g, gs.get(g, gs.get(int(g)) if str(g).isdigit() else None), case['term'], errs[0],
                                                    str(muxprop.outs(r['chunks']))[:200]))
    if r.get('empty_input'):
        return 'precondition-not-met'    # first / last / mean(reduce) applied to an empty sequence (possibly masked on the plain path)
    if any(muxprop.has_fatal(pl) for pl in r['plain'].values()):
        return 'precondition-not-met'    # some group makes the plain pipeline raise (e.g. first/last/mean on an empty sequence)
    for g, (head_items, outs) in zip(order, go):
        plain = r['plain'][str(g)]
        if muxprop.has_fatal(plain):
            continue                      # plain raises: precondition of the property not met for this group
        want = muxprop.items_of(plain)
        if mux_fatal:
            return ('group %s with items %s: the plain pipeline %s completes normally with %s but the multiplexed run ends with an error %s'
                    % (g, gs[g], case['term'], str(want)[:200], [o for c_ in r['chunks'] for o in c_ if 'x' in o]))
        if muxprop.strict_ne(outs, want):
            return ('group %s with items %s: multiplexed %s emits %s, plain emits %s'
                    % (g, gs[g], case['term'], str(outs)[:300], str(want)[:300]))
    return None


def nontrivial(case, r):
    return len(groups(case)) >= 2 and len(case['term']) >= 1


def tags(case, r):
    t = muxprop.tags({'kind': 'dual', 'term': case['term'], 'items': case['items']}, r)
    t.append('groups=%d' % len(groups(case)))
    t.append('stages=%d' % len(case['term']))
    t.append('ctx=%s' % case.get('ctx', 'group_by'))
    return t


def violation_class(case, text):
    return 'error-vs-normal' if 'ends with an error' in text else 'outputs'


def cases(tier, rng):
    """every case of `_cases`, and for a fraction of the mux/plain ones the same case run as the SECOND subscription of
    its pipeline object (after an earlier subscription that completed, failed or was disposed)"""
    pr = rng.sub('resubscription')
    return muxprop.with_preludes(_cases(tier, rng), pr)


def oracle(case, r):
    v = muxprop.prelude_violation(case, r)
    if v or case.get('share'):
        return v        # the shared-operator variant wraps the pipeline in a tee_map: judged against separately built operators only
    return _oracle(case, r)

"""C16 — compression round-trips under re-chunking and flags truncated streams."""
import gzip
import zlib
import zstandard
import rxsci as rs
from rxutil import drive_plain, cut

PROPERTY = 'C16'
ANCHORS = ['rxsci/compression/z.py', 'rxsci/compression/zstd.py']
TRUSTED_BASE = [
    'Lean 4.33.0 kernel; axioms propext, Classical.choice, Quot.sound only',
    'the compression libraries (zlib, zstandard) are NOT modelled: theorems are about rxsci\'s wrapper logic under the explicit '
    'library contract CodecContract (satisfiable: C16_nonvacuous); the contract is exercised on the real libraries by this check',
    'wrapper model lean/RxModel/Compress.lean tied to /repo by replaying, through the model, the transcript of the library objects '
    'recorded while the real wrapper runs (same chunks) and comparing the event sequences',
]
ASSUMPTIONS = ['library contract: cutting a complete compressed stream into (non-empty, for zstandard) pieces yields the original bytes and '
               'end-of-stream; no end-of-stream on a strict prefix']
RULE = ('chunk lists with empty chunks, the empty list, sizes 0 .. several internal buffers (quick: <= 200 KiB, thorough: <= 4 MiB), '
        'compressible and random data; all cut positions of small compressed streams, sampled cuts (incl. duplicated positions = empty chunks '
        'and a trailing empty chunk) of large ones; all truncation points of small streams, sampled of large; gzip and zstd; '
        'non-trivial = at least two chunks on either side; distinct by SHA-1 of the case')
ORACLE_DOC = ('decompress(re-chunked compress(chunks)) concatenates to the concatenation of the chunks and completes; the compressed stream is '
              'a valid standalone gzip / zstd file (judged by gzip.decompress / zstandard one-shot); a strict prefix of it makes decompress '
              'end with on_error and never complete')
KNOWN_MATCHERS = {}
MOD = {'gzip': rs.compression.z, 'zstd': rs.compression.zstd}


def _chunk(c):
    """a chunk is a hex string, or {'rep': hex, 'n': k} = the pattern repeated to k bytes (keeps big cases small)"""
    if isinstance(c, dict) and 'rnd' in c:
        # incompressible bytes (a fixed pseudo-random stream): the compressed stream is about as long as the input
        import random as _r
        return _r.Random(c['rnd']).randbytes(c['n'])
    if isinstance(c, dict):
        pat = bytes.fromhex(c['rep'])
        return (pat * (c['n'] // len(pat) + 1))[:c['n']]
    return bytes.fromhex(c)


def _clen(c):
    return c['n'] if isinstance(c, dict) else len(c) // 2


def gen_chunks(rng, tier):
    n = rng.choice([0, 1, 2, 3, 6])
    out = []
    for _ in range(n):
        kind = rng.choice(['empty', 'small', 'small', 'text', 'random', 'big'])
        if kind == 'empty':
            out.append(b'')
        elif kind == 'small':
            out.append(bytes(rng.randrange(256) for _ in range(rng.choice([1, 2, 10, 100]))))
        elif kind == 'text':
            out.append((b'lorem ipsum dolor ' * rng.choice([1, 50, 3000]))[:rng.choice([17, 900, 54000])])
        elif kind == 'random':
            out.append(rng.randbytes(rng.choice([100, 5000, 70000])))
        else:
            size = rng.choice([70000, 200000]) if tier != 'thorough' else rng.choice([200000, 1500000, 4000000])
            out.append((b'abcdefgh' * (size // 8 + 1))[:size] if rng.random() < 0.5 else rng.randbytes(size))
    return out


def cases(tier, rng):
    yield {'codec': 'zstd', 'chunks': [b'hello'.hex()], 'cuts': 'end-empty', 'truncate': None}
    yield {'codec': 'gzip', 'chunks': [], 'cuts': [], 'truncate': None}
    for codec in ('gzip', 'zstd'):
        # one compressed chunk that expands to several MiB (bounded-output decompression paths)
        yield {'codec': codec, 'chunks': [{'rep': '00', 'n': 3000000}, 'ff'], 'cuts': [], 'truncate': None}
        yield {'codec': codec, 'chunks': [{'rep': '6162636465666768', 'n': 2500000}], 'cuts': [100], 'truncate': None}
    yield {'codec': 'zstd', 'chunks': [], 'cuts': [], 'truncate': None}
    for codec in ('gzip', 'zstd'):
        # tens of MiB out of a few KiB of compressed input, whole, in two halves, trailer apart, and truncated: judged by the
        # oracle on the real code only (too large for the model's list-based transcript replay)
        for n, cuts, trunc in ((12 << 20, [], None), (24 << 20, 'half', None), (12 << 20, 'trailer', None), (40 << 20, [7], None),
                               (12 << 20, [], 'last')):
            yield {'codec': codec, 'chunks': [{'rep': '6162636465666768', 'n': n}], 'cuts': cuts, 'truncate': trunc, 'oracle_only': True}
    for codec in ('gzip', 'zstd'):
        # compressed streams longer than one 64 KiB read, cut so that the last pieces are full reads
        for cuts in ('last64k', 'full64k'):
            yield {'codec': codec, 'chunks': [{'rnd': 7, 'n': 200000}], 'cuts': cuts, 'truncate': None, 'oracle_only': True}
    for codec in ('gzip', 'zstd'):
        # more than 64 MiB in several items (size-triggered behaviour of the compressor: member / frame splitting, 32-bit counters)
        yield {'codec': codec, 'chunks': [{'rep': '6162636465666768', 'n': 17 << 20}] * 5, 'cuts': 'half', 'truncate': None, 'oracle_only': True}
    for codec in ('gzip', 'zstd'):
        small = [b'ab', b'', b'cdefg' * 3]
        z = compress_real(codec, small)[0]
        n = len(z)
        for p in range(0, n + 1):
            yield {'codec': codec, 'chunks': [c.hex() for c in small], 'cuts': [p], 'truncate': None}
            if p < n:
                yield {'codec': codec, 'chunks': [c.hex() for c in small], 'cuts': [p // 2], 'truncate': p}
    for codec in ('gzip', 'zstd'):
        yield {'codec': codec, 'chunks': ['6162', '636465'], 'cuts': [3], 'truncate': None, 'twice': True}
        # one operator object, two subscriptions alive at the same time with interleaved chunks
        for mode in ('before', 'mid'):
            yield {'codec': codec, 'chunks': ['6162', '636465', '66' * 300], 'cuts': [3, 9], 'truncate': None, 'twin': mode}
    n = {'quick': 150, 'thorough': 2000, 'search': 200}[tier]
    for _ in range(n):
        codec = rng.choice(['gzip', 'zstd'])
        chunks = gen_chunks(rng, tier)
        zlen = len(compress_real(codec, chunks)[0])
        trunc = rng.randrange(0, zlen) if rng.random() < 0.3 and zlen > 0 else None
        lim = trunc if trunc is not None else zlen
        cuts = sorted(rng.randrange(0, lim + 1) for _ in range(rng.choice([0, 1, 2, 3, 8])))
        if rng.random() < 0.2 and trunc is None:
            cuts = cuts + [lim]            # trailing empty chunk after the end of the stream
        yield {'codec': codec, 'chunks': [c.hex() for c in chunks], 'cuts': cuts, 'truncate': trunc, 'twice': rng.random() < 0.15,
               'twin': rng.choice([None, None, None, None, 'before', 'mid'])}


TWIN_PLAIN = [b'twin ' * 40, b'', b'\x00\x01\x02' * 33, b'another subscription of the same operator']


def compress_real(codec, chunks, twin=None):
    r = (drive_plain([MOD[codec].compress()], chunks, twin=list(TWIN_PLAIN), twin_mode=twin) if twin
         else drive_plain([MOD[codec].compress()], chunks))
    out = [bytes(x) for s in r['steps'] for x in s] + [bytes(x) for x in r['fin']]
    return b''.join(out), r, out


def _events(r):
    ev = []
    for s in r['steps']:
        ev += [{'next': list(x)} for x in s]
    ev += [{'next': list(x)} for x in r['fin']]
    if r['end'] == 'completed':
        ev.append('completed')
    elif r['end'].startswith('error:'):
        ev.append({'error': r['end'][6:]})
    return ev


def _cuts(case, z):
    if case['cuts'] == 'end-empty':
        return [len(z)]
    if case['cuts'] == 'half':
        return [len(z) // 2]
    if case['cuts'] == 'trailer':
        return [max(len(z) - 8, 0)]
    if case['cuts'] == 'last64k':
        # the piece that holds the end of the stream is exactly one 64 KiB read (a file whose size is a multiple of the read size)
        return [max(len(z) - 65536, 0)]
    if case['cuts'] == 'full64k':
        return [k for k in range(len(z) % 65536 or 65536, len(z), 65536)]
    return case['cuts']


def real(case):
    codec = case['codec']
    chunks = [_chunk(c) for c in case['chunks']]
    z, rc, _ = compress_real(codec, chunks, twin=case.get('twin'))
    if case['truncate'] == 'last':
        case = dict(case, truncate=len(z) - 3)
    zz = z if case['truncate'] is None else z[:case['truncate']]
    pieces = cut(zz, _cuts(case, zz))
    if case.get('oracle_only'):
        # large expansion: keep only what the oracle needs (no per-byte lists)
        import rx
        import hashlib
        st = {'end': 'open', 'n': 0}
        h = hashlib.sha256()

        def on_next(x):
            st['n'] += len(x)
            h.update(bytes(x))
        rx.from_(pieces).pipe(MOD[codec].decompress()).subscribe(
            on_next=on_next, on_error=lambda e: st.update(end='error:' + type(e).__name__), on_completed=lambda: st.update(end='completed'))
        plain = b''.join(chunks)
        ok_c = (gzip.decompress(z) if codec == 'gzip' else zstandard.ZstdDecompressor().decompressobj().decompress(z)) == plain
        return {'oracle_only': True, 'compress_ok': ok_c and rc['end'] == 'completed', 'end': st['end'], 'got_len': st['n'],
                'got_ok': h.hexdigest() == hashlib.sha256(plain).hexdigest(), 'plain_len': len(plain), 'zlen': len(z),
                'truncate': case['truncate'], 'pieces': [len(p) for p in pieces]}
    if case.get('twice'):
        # the same decompress pipeline subscribed a second time (a retry / second consumer): judged on the second run
        import rx
        obs = rx.from_(pieces).pipe(MOD[codec].decompress())
        obs.subscribe(on_next=lambda x: None, on_error=lambda e: None)
        out, st = [], {'end': 'open'}
        obs.subscribe(on_next=out.append, on_error=lambda e: st.update(end='error:' + type(e).__name__),
                      on_completed=lambda: st.update(end='completed'))
        rd = {'steps': [[o] for o in out[:-1]] if st['end'] == 'completed' else [[o] for o in out],
              'fin': out[-1:] if st['end'] == 'completed' else [], 'end': st['end']}
    elif case.get('twin'):
        # the same decompress operator object applied to a second source that is live at the same time
        tz = compress_real(codec, TWIN_PLAIN)[0]
        rd = drive_plain([MOD[codec].decompress()], pieces, twin=cut(tz, [len(tz) // 3, 2 * len(tz) // 3]), twin_mode=case['twin'])
    else:
        rd = drive_plain([MOD[codec].decompress()], pieces)
    return {'z': z.hex(), 'c_events': _events(rc), 'd_events': _events(rd), 'pieces': [p.hex() for p in pieces]}


def transcript(codec, chunks, pieces):
    """what the library objects answer, recorded independently of the wrapper"""
    if codec == 'gzip':
        co = zlib.compressobj(wbits=zlib.MAX_WBITS | 16)
        do = zlib.decompressobj(wbits=zlib.MAX_WBITS | 16)
    else:
        co = zstandard.ZstdCompressor().compressobj()
        do = zstandard.ZstdDecompressor().decompressobj()

    def step(f, *a):
        try:
            return {'out': list(f(*a))}
        except Exception as e:
            return {'exc': type(e).__name__}
    csteps = [step(co.compress, c) for c in chunks]
    cflush = step(co.flush)
    skip = codec == 'zstd'
    dsteps = []
    for p in pieces:
        if skip and len(p) == 0:
            continue
        s = step(do.decompress, p)
        dsteps.append(s)
        if 'exc' in s:
            break
    eof = bool(do.eof)
    dflush = step(do.flush) if eof else {'out': []}
    return csteps, cflush, dsteps, dflush, eof


def model_cmds(case):
    if case.get('oracle_only'):
        return []
    codec = case['codec']
    chunks = [_chunk(c) for c in case['chunks']]
    z = compress_real(codec, chunks)[0]
    zz = z if case['truncate'] is None else z[:case['truncate']]
    pieces = cut(zz, _cuts(case, zz))
    cs, cf, ds, df, eof = transcript(codec, chunks, pieces)
    return [{'cmd': 'z_wrap', 'mode': 'compress', 'chunks': [list(c) for c in chunks], 'steps': cs, 'flush': cf},
            {'cmd': 'z_wrap', 'mode': 'decompress', 'skip_empty': codec == 'zstd', 'chunks': [list(p) for p in pieces],
             'steps': ds, 'flush': df, 'eof': eof}]


def model_result(case, ans):
    if case.get('oracle_only'):
        return {}
    for a in ans:
        if 'error' in a:
            return {'model_error': a['error']}
    return {'c_events': ans[0]['events'], 'd_events': ans[1]['events']}


def _norm(evs):
    return [e if not (isinstance(e, dict) and 'error' in e) else {'error': e['error']} for e in evs]


def compare(case, r, m):
    if 'harness_exc' in r:
        return 'harness: ' + r['harness_exc']
    if case.get('oracle_only'):
        return None
    if 'model_error' in m:
        return 'model: ' + m['model_error']
    for k in ('c_events', 'd_events'):
        a, b = _norm(r[k]), _norm(m[k])
        if a != b:
            sa = [x if isinstance(x, str) else list(x.keys())[0] + (':' + x['error'] if 'error' in x else '') for x in a]
            sb = [x if isinstance(x, str) else list(x.keys())[0] + (':' + x['error'] if 'error' in x else '') for x in b]
            return '%s: real=%s model=%s' % (k, sa[:12], sb[:12])
    return None


def oracle(case, r):
    if 'harness_exc' in r:
        return 'real code raised: ' + r['harness_exc']
    codec = case['codec']
    if r.get('oracle_only'):
        if not r['compress_ok']:
            return '%s.compress of one %d byte chunk is not a valid standalone stream of the input' % (codec, r['plain_len'])
        if r['truncate'] is None:
            if r['end'] != 'completed' or not r['got_ok']:
                return ('%s.decompress over a %d byte compressed stream (expanding to %d bytes) cut into pieces of sizes %s ended with %s '
                        'after %d bytes, expected completion and the input' % (codec, r['zlen'], r['plain_len'], r['pieces'], r['end'], r['got_len']))
        elif not r['end'].startswith('error:'):
            return '%s.decompress of a stream truncated at byte %d of %d ended with %s, expected on_error' % (codec, r['truncate'], r['zlen'], r['end'])
        return None
    chunks = [_chunk(c) for c in case['chunks']]
    plain = b''.join(chunks)
    z = bytes.fromhex(r['z'])
    if r['c_events'][-1:] != ['completed']:
        return '%s.compress of %d chunks did not complete: %s' % (codec, len(chunks), r['c_events'][-1:])
    try:
        ref = gzip.decompress(z) if codec == 'gzip' else zstandard.ZstdDecompressor().decompressobj().decompress(z)
    except Exception as e:
        return '%s.compress output is not a valid standalone %s stream: %s' % (codec, codec, type(e).__name__)
    if ref != plain:
        return '%s.compress output decompresses (reference decoder) to %d bytes, expected %d' % (codec, len(ref), len(plain))
    got = b''.join(bytes(e['next']) for e in r['d_events'] if isinstance(e, dict) and 'next' in e)
    last = r['d_events'][-1] if r['d_events'] else None
    pieces = [len(p) // 2 for p in r['pieces']]
    if case['truncate'] is None:
        if last != 'completed' or got != plain:
            return ('%s.decompress over the compressed stream cut into pieces of sizes %s ended with %s and %d bytes, expected completion and %d bytes'
                    % (codec, pieces[:12], last if isinstance(last, str) else list(last.items())[0], len(got), len(plain)))
    else:
        if last == 'completed' or not (isinstance(last, dict) and 'error' in last):
            return ('%s.decompress of a stream truncated at byte %d of %d ended with %s, expected on_error'
                    % (codec, case['truncate'], len(z), last))
    return None


def nontrivial(case, r):
    return len(case['chunks']) >= 2 or (isinstance(case['cuts'], list) and len(case['cuts']) >= 1) or bool(case.get('oracle_only'))


def tags(case, r):
    t = ['codec=' + case['codec'], 'chunks=%d' % min(len(case['chunks']), 6),
         'truncated=%s' % (case['truncate'] is not None)]
    size = sum(_clen(c) for c in case['chunks'])
    t.append('size=%s' % ('0' if size == 0 else '<1K' if size < 1024 else '<64K' if size < 65536 else '>=64K'))
    if any(c == '' for c in case['chunks'] if isinstance(c, str)):
        t.append('empty-input-chunk')
    cuts = case['cuts']
    if cuts == 'end-empty' or (isinstance(cuts, list) and any(a == b for a, b in zip(cuts, cuts[1:]))):
        t.append('empty-compressed-chunk')
    return t


def shrink_candidates(case):
    if isinstance(case['cuts'], list):
        for i in range(len(case['cuts'])):
            c = dict(case)
            c['cuts'] = case['cuts'][:i] + case['cuts'][i + 1:]
            yield c
    for i in range(len(case['chunks'])):
        c = dict(case)
        c['chunks'] = case['chunks'][:i] + case['chunks'][i + 1:]
        if case['truncate'] is None and isinstance(case['cuts'], list):
            c['cuts'] = []
            yield c


def violation_class(case, text):
    return case['codec'] + ('-trunc' if case['truncate'] is not None else '')

"""C11 — streaming promptness: results are emitted with the item that determines them."""
import muxgen
import muxprop
from muxprop import real, model_cmds, model_result, compare, shrink_candidates  # noqa: F401
import pyref
import splitoracle
from catalog import dec, enc

PROPERTY = 'C11'
ANCHORS = ['rxsci/operators/scan.py', 'rxsci/data/roll.py', 'rxsci/data/split.py', 'rxsci/data/time_split.py',
           'rxsci/operators/group_by.py', 'rxsci/operators/tee_map.py', 'rxsci/data/batch.py', 'rxsci/operators/multiplex.py']
TRUSTED_BASE = muxprop.TRUSTED_BASE
ASSUMPTIONS = muxprop.ASSUMPTIONS
RULE = ('the source is a Subject driven one item at a time; for every output the number of source items pushed so far is recorded. '
        'Cases: every primitive operator alone, flat pipelines of them, each of roll/split/time_split/group_by around flat inner pipelines, '
        'tee_map of flat branches, random nested pipelines (model comparison only); non-trivial = at least one output before completion '
        'and three or more items; distinct by SHA-1 of the case')
ORACLE_DOC = ('position of every real output vs the position required by the statement: per-item operators and running aggregates in the chunk '
              'of their item, batch with its n-th item, a window/segment/session result in the chunk of its closing item (the item that '
              'completes the window, starts the next run, or expires/closes the session), only end-dependent results at completion')
KNOWN_MATCHERS = {}


def flat_stage(rng):
    return rng.choice([['map', ['add', 1]], ['filter', ['is_even']], ['scan', ['add'], 0, False, None], ['count', False],
                       ['scan', ['max'], 0, True, None], ['first'], ['last'], ['take', 2], ['distinct', None], ['duc', None],
                       ['lag', 1], ['lag', 2], ['pad_start', 1, None], ['pad_end', 1, None], ['start_with', [9]],
                       ['batch', 1], ['batch', 2], ['batch', 3], ['to_list'], ['identity'], ['count', True]])


def _cases(tier, rng):
    yield {'kind': 'mux', 'term': [['batch', 1]], 'items': [1, 2, 3]}
    yield {'kind': 'mux', 'term': [['roll', 3, 2, [['count', True]]]], 'items': [1, 2, 3, 4, 5]}
    # None / falsy items at every position relative to a batch, window, lag or pad boundary (per-item timing must not depend on values)
    for (k, r) in ((2, 0), (2, 1), (3, 0), (3, 1), (3, 2), (1, 0)):
        pre = ['map', ['none_if_mod', k, r]]
        for st_ in (['batch', 1], ['batch', 2], ['batch', 3], ['lag', 1], ['lag', 2], ['pad_start', 1, None], ['pad_end', 2, None],
                    ['last'], ['first'], ['take', 2], ['to_list'], ['start_with', [None]]):
            yield {'kind': 'mux', 'term': [pre, st_], 'items': [1, 2, 3, 4, 5, 6, 7]}
        yield {'kind': 'mux', 'term': [['group_by', ['mod', 2], [pre, ['batch', 2]]]], 'items': [1, 2, 3, 4, 5, 6, 7, 8, 9]}
        yield {'kind': 'mux', 'term': [pre, ['roll', 2, 1, [['to_list']]]], 'items': [1, 2, 3, 4, 5]}
        yield {'kind': 'plain', 'term': [pre, ['batch', 2]], 'items': [1, 2, 3, 4, 5, 6, 7]}
    n = {'quick': 1500, 'thorough': 12000, 'search': 600}[tier]
    # the same promptness on ordinary observables, also when the source pushes its items from inside the current-thread scheduler
    # (rx.from_, every reader of rxsci): what an item produces is delivered before the next item is taken
    for term in ([['map', ['range_list']], ['flat_map']], [['batch', 2], ['flat_map']], [['map', ['mod', 4]], ['map', ['range_list']], ['flat_map'], ['count', False]]):
        yield {'kind': 'plain', 'term': term, 'items': [1, 2, 3, 4, 5], 'tramp': True}
    for _ in range({'quick': 150, 'thorough': 1500, 'search': 60}[tier]):
        g = muxgen.Gen(rng, {'dual_only': True, 'splitters': False, 'nest': 1, 'mux_only_ops': False, 'max_len': 4})
        term, _ = g.pipe('int', 1, n=rng.choice([1, 2, 3]))
        c = {'kind': 'plain', 'term': term, 'items': muxgen.gen_items(rng)}
        yield c
        yield dict(c, tramp=True)
    for _ in range(n):
        r = rng.random()
        flat = []
        listy = False
        for _ in range(rng.choice([1, 1, 2, 3])):
            st_ = flat_stage(rng)
            while listy and st_[0] in ('distinct', 'duc', 'map', 'filter', 'scan'):
                st_ = flat_stage(rng)
            if st_[0] in ('batch', 'to_list', 'lag'):
                listy = True
            flat.append(st_)
        items = muxgen.gen_items(rng)
        if r < 0.3:
            yield {'kind': 'mux', 'term': flat, 'items': items}
        elif r < 0.7:
            sp = rng.choice([['roll', 3, 2], ['roll', 2, 2], ['roll', 3, 1], ['roll', 2, 3], ['split', ['floordiv', 3]],
                             ['group_by', ['mod', 2]],
                             ['time_split', {'time': ['id'], 'active': 4, 'inactive': 2, 'closing': None, 'include': True}],
                             # every combination of timeouts (also 0: every item closes the window before it), closing mappers (the
                             # first item of a key can be a closing item), inclusive or not; timestamps may repeat
                             ['time_split', {'time': ['id'], 'active': rng.choice([None, 2, 3, 5, 0]), 'inactive': rng.choice([None, 1, 2, 3, 0]),
                                             'closing': rng.choice([None, ['mod_eq', 4, 3], ['is_even'], ['mod_eq', 3, 0]]),
                                             'include': rng.random() < 0.5}]])
            if sp[0] in ('split', 'time_split'):
                items = muxgen.gen_items(rng, kind='mono')
            yield {'kind': 'mux', 'term': [sp + [flat]], 'items': items}
        else:
            g = muxgen.Gen(rng, {'nest': 2})
            term, _ = g.pipe('int', 2)
            if any(s[0] == 'time_split' for s in muxgen.walk(term)):
                items = muxgen.gen_items(rng, kind='mono')
            yield {'kind': 'mux', 'term': term, 'items': items}


def _sources_cases(tier, rng):
    # several hot sources sharing one store (with_memory_store(sources=[...])): the outputs are subscribed one after the other,
    # items may be pushed in between (a hot source's items before its subscription is complete are not consumed)
    for _ in range({'quick': 40, 'thorough': 400, 'search': 20}[tier]):
        ns = rng.choice([2, 2, 3])
        pipes = [rng.choice([[['scan', ['add'], 0, False, None]], [['count', False]], [['map', ['add', 1]]], [['batch', 2]],
                             [['count', True]], [['to_list']], [['lag', 1]]]) for _ in range(ns)]
        sched = []
        order = list(range(ns))
        rng.shuffle(order)
        subscribed = []
        for k in order:
            sched.append(['sub', k])
            subscribed.append(k)
            for _j in range(rng.choice([0, 0, 1, 2])):
                sched.append(['push', rng.choice(subscribed) if rng.random() < 0.8 else rng.randrange(ns), rng.randrange(9)])
        live = list(range(ns))
        for _j in range(rng.choice([2, 4, 7])):
            sched.append(['push', rng.choice(live), rng.randrange(9)])
        rng.shuffle(live)
        for k in live:
            sched.append(['done', k])
        yield {'kind': 'sources', 'term': [], 'items': [], 'pipes': pipes, 'sched': sched, 'no_model': True}


def sources_violation(case, r):
    if 'harness_exc' in r:
        return 'real code raised: ' + r['harness_exc']
    if r.get('raised'):
        return None
    sched, pipes = case['sched'], case['pipes']
    nsub = 0
    ready_at = None
    for j, st in enumerate(sched):
        if st[0] == 'sub':
            nsub += 1
            if nsub == len(pipes):
                ready_at = j
    # the items source k delivers: those pushed once every output is subscribed (the sources are subscribed then)
    for j, (st, out) in enumerate(zip(sched, r['chunks'])):
        if st[0] == 'sub' and out:
            return ('sources %s, schedule %s: while output %d is being subscribed (step %d, no item is being processed) %s is emitted'
                    % (pipes, sched, st[1], j, str(out)[:200]))
        if st[0] != 'sub' and any(o['o'] != st[1] for o in out):
            return ('sources %s, schedule %s: step %d %s makes another output emit: %s' % (pipes, sched, j, st, str(out)[:200]))
    for k, term in enumerate(pipes):
        steps = [j for j, st in enumerate(sched) if st[0] in ('push', 'done') and st[1] == k and j > ready_at]
        xs = [dec(sched[j][2]) for j in steps if sched[j][0] == 'push']
        try:
            ch, fin = pyref.ref_pipe(term, xs)
        except pyref.NotCovered:
            continue
        want = [[enc(x) for x in c] for c in ch] + [[enc(x) for x in fin]]
        got = [[o.get('i') for o in r['chunks'][j]] for j in steps]
        if muxprop.strict_ne(got, want):
            return ('sources %s, schedule %s: output %d emits %s at its steps %s, the list semantics of its items %s emit %s'
                    % (pipes, sched, k, str(got)[:200], steps, xs, str(want)[:200]))
    return None


def real(case):      # noqa: F811
    if case['kind'] == 'feedback':
        return muxprop.feedback_real(case)
    if case['kind'] == 'sources':
        import muxreal
        return muxprop.quiet(muxreal.run_sources, case['pipes'], case['sched'])
    return muxprop.real(case)


def model_cmds(case):      # noqa: F811
    return [] if case.get('no_model') else muxprop.model_cmds(case)


def model_result(case, ans):      # noqa: F811
    return {} if case.get('no_model') else muxprop.model_result(case, ans)


def compare(case, r, m):      # noqa: F811
    return None if case.get('no_model') else muxprop.compare(case, r, m)


def shrink_candidates(case):      # noqa: F811
    if case['kind'] == 'feedback':
        return
    if case['kind'] == 'sources':
        for j, st in enumerate(case['sched']):
            if st[0] == 'push':
                yield dict(case, sched=case['sched'][:j] + case['sched'][j + 1:])
        return
    for c in muxprop.shrink_candidates(case):
        yield c


def window_positions(st, xs):
    """for one parent lifetime: list of (window items, index of the item whose chunk must contain the window's
    completion outputs; None = at completion of the key)"""
    wins = splitoracle.expected_windows(st, xs)
    n = st[0]
    out = []
    if n == 'roll':
        w, s = st[1], st[2]
        for j, win in enumerate(wins):
            last = j * s + w - 1
            out.append((win, last if last < len(xs) else None, j * s))
    elif n == 'split':
        pos = 0
        for j, win in enumerate(wins):
            start = pos
            pos += len(win)
            out.append((win, pos if pos < len(xs) else None, start))
    elif n == 'group_by':
        for win in wins:
            out.append((win, None, None))
    elif n == 'time_split':
        out = []
        for a, b, close_at in splitoracle.ts_windows_pos(st[1], xs):
            out.append((xs[a:b], close_at, a))
    return out


def _oracle(case, r):
    if 'harness_exc' in r:
        return 'real code raised: ' + r['harness_exc']
    if r.get('raised') or muxprop.has_fatal(r['chunks']):
        return None
    if case['kind'] == 'plain':
        # on an ordinary observable too: what item i determines is emitted while item i is processed (the list semantics of the
        # pipeline, item by item), the rest at completion
        try:
            ch, fin = pyref.ref_pipe_plain(case['term'], [dec(x) for x in case['items']])
        except pyref.NotCovered:
            return None
        except Exception:
            return None
        want = pyref.enc_chunks(ch, fin)
        got = r['chunks'][1:]
        if muxprop.strict_ne(got, want):
            for i, (a, b) in enumerate(zip(got, want)):
                if muxprop.strict_ne(a, b):
                    return ('plain %s over %s: while item %d is processed the operator emits %s, the list semantics emit %s (completion chunk '
                            'last)' % (case['term'], case['items'], i, str(a)[:200], str(b)[:200]))
        return None
    if case['kind'] != 'mux':
        return None
    t = case['term']
    xs = [dec(x) for x in case['items']]
    try:
        if len(t) == 1 and t[0][0] in ('roll', 'split', 'group_by', 'time_split') and all(s[0] not in ('roll', 'split', 'group_by', 'time_split', 'tee') for s in t[0][-1]):
            st = t[0]
            inner = st[-1]
            want = [[] for _ in range(len(xs) + 2)]
            if st[0] == 'group_by':
                # results of groups are emitted as produced: item x contributes its group's chunk for x
                wins = splitoracle.expected_windows(st, case['items'])
                from catalog import fn1
                f = fn1(st[1])
                keys = []
                states = []
                for i, x in enumerate(xs):
                    k = f(x)
                    for gi, kk in enumerate(keys):
                        if kk == k:
                            break
                    else:
                        keys.append(k)
                        states.append([])
                        gi = len(keys) - 1
                    states[gi].append(x)
                    ch, _fin = pyref.ref_pipe(inner, states[gi])
                    want[i + 1].extend({'i': enc(v)} for v in ch[-1])
                for g in states:
                    _ch, fin = pyref.ref_pipe(inner, g)
                    want[len(xs) + 1].extend({'i': enc(v)} for v in fin)
            else:
                # several windows may be open at once; outputs of one source item are ordered by window slot in the
                # code, which the statement leaves open: compare chunks as multisets per source position
                for win, close_at, start in window_positions(st, case['items']):
                    ch, fin = pyref.ref_pipe(inner, [dec(x) for x in win])
                    for k, c in enumerate(ch):
                        want[start + k + 1].extend({'i': enc(v)} for v in c)
                    tgt = (close_at + 1) if close_at is not None else len(xs) + 1
                    want[tgt].extend({'i': enc(v)} for v in fin)
            got = r['chunks']
            key = lambda o: repr(o)   # noqa: E731
            if [sorted(c, key=key) for c in got] != [sorted(c, key=key) for c in want]:
                for i, (a, b) in enumerate(zip(got, want)):
                    if sorted(a, key=key) != sorted(b, key=key):
                        return ('%s over %s: while source position %d was processed the real code emitted %s; the statement '
                                'requires %s there (full real run %s)' % (t, case['items'], i - 1, a, b, str(got)[:300]))
            return None
        ch, fin = pyref.ref_pipe(t, xs)
    except pyref.NotCovered:
        return None
    want = [[]] + pyref.enc_chunks(ch, fin)
    if r['chunks'] != want:
        for i, (a, b) in enumerate(zip(r['chunks'], want)):
            if a != b:
                return ('%s over %s: while source position %d was processed the real code emitted %s; the statement requires %s there'
                        % (t, case['items'], i - 1, a, b))
    return None


def nontrivial(case, r):
    return len(case['items']) >= 3 and isinstance(r, dict) and any(c for c in (r.get('chunks') or [])[1:-1])


tags = muxprop.tags


def violation_class(case, text):
    return ([s[0] for s in case['term']] or ['empty'])[0]


def cases(tier, rng):
    """every case of `_cases`, and for a fraction of the mux/plain ones the same case run as the SECOND subscription of
    its pipeline object (after an earlier subscription that completed, failed or was disposed)"""
    pr = rng.sub('resubscription')
    for c in _sources_cases(tier, rng.sub('sources')):
        yield c
    # feedback loops: the output determined by a follow-up item pushed from inside an on_next comes out while THAT push is in progress
    for c in muxprop.feedback_cases(tier, rng.sub('feedback'), plain_share=0.3):
        yield c
    for c in muxprop.with_preludes(_cases(tier, rng), pr):
        yield c


def oracle(case, r):
    if case['kind'] == 'feedback':
        return muxprop.feedback_violation(case, r)
    if case['kind'] == 'sources':
        return sources_violation(case, r)
    v = muxprop.prelude_violation(case, r)
    if v or case.get('share'):
        return v        # the shared-operator variant wraps the pipeline in a tee_map: judged against separately built operators only
    return _oracle(case, r)

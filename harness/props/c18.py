"""C18 — CSV dump/load round-trips typed rows."""
import os
import struct
import tempfile
import rx
import rxsci.container.csv as rscsv
from rxutil import drive_plain

PROPERTY = 'C18'
ANCHORS = ['rxsci/container/csv.py', 'rxsci/framing/line.py', 'rxsci/io/file.py']
TRUSTED_BASE = [
    'Lean 4.33.0 kernel; axioms propext, Classical.choice, Quot.sound only',
    'hand-written model lean/RxModel/Csv.lean (escaping, quoting, split, merge_escape_parts, unquote, int printing/parsing), tied to /repo '
    'by the correspondence check of this run (dumped lines and parsed rows compared)',
    'library contract (assumed, tested): float(str(x)) == x for finite doubles; float fields travel through the model as the token str(x)',
    'modelled, not verified: CPython str.split / str.replace / str.join / int() / str(); file reads in 64 KiB chunks (line framing: C15)',
]
ASSUMPTIONS = ['strings contain no newline; separator does not contain the quote, the escape character or a newline; the escape character is one '
               'character different from the quote; rows have a header line (the parser consumes the first line as header)']
RULE = ('rows of 1..8 typed columns (int incl. negative and 64-bit, float sampled by bit pattern incl. negatives, -0.0, tiny/huge exponents, '
        'bool, str over an alphabet rich in separator, quote, escape character and blanks at every position incl. first/last, empty strings), '
        'separators , ; | tab and multi-character, escape characters \\\\ and ^; through dump/load operators and through '
        'dump_to_file/load_from_file (files crossing the 64 KiB read chunk, default and explicit encoding); '
        'non-trivial = a string field contains a separator, quote or escape character; distinct by SHA-1 of the case')
ORACLE_DOC = ('rows read back by the real loader must equal the rows written, field by field: ints exactly, floats bit for bit, '
              'bools, strings character for character')
KNOWN_MATCHERS = {}

TYPES = {'int': int, 'float': float, 'bool': bool, 'str': str}


def fl(x):
    return {'float': repr(float(x)), 'bits': '%016x' % struct.unpack('<Q', struct.pack('<d', float(x)))[0]}


def gen_float(rng):
    r = rng.random()
    if r < 0.3:
        return rng.choice([0.0, -0.0, 1.5, -1.5, -0.5, 0.1, 1e-7, 123456.789, -2.5e-10, 1e22, 5e-324, 1.7976931348623157e308, 0.3])
    if r < 0.7:
        b = rng.getrandbits(64)
        x = struct.unpack('<d', struct.pack('<Q', b))[0]
        if x != x or x in (float('inf'), float('-inf')):
            return 1.25
        return x
    return rng.uniform(-1000, 1000)


def gen_str(rng, sep, esc):
    alpha = ['a', 'b', ' ', '"', esc, sep, sep[0], 'é', '0', 'T', ',', ';', '\t', '|', "'", esc + '"', '""', esc + esc,
             # the escape character in front of letters that are escape sequences in other formats (a literal two-character text here)
             esc + 'n', esc + 't', esc + 'r', esc + '0', esc + 'x41', esc + 'u00e9', 'n', 'r', esc + esc + 'n',
             # line boundaries of str.splitlines() that are not '\n': ordinary field content for line framing
             '\x0c', '\x0b', '\x1c', '\x1d', '\x1e', '\x85', '\u2028', '\u2029']
    n = rng.choice([0, 0, 1, 2, 3, 6, 12])
    return ''.join(rng.choice(alpha) for _ in range(n))


def gen_case(rng, tier, file=False):
    sep = rng.choice([',', ',', ';', '|', '\t', '::', ', '])
    esc = rng.choice(['\\', '\\', '^'])
    ncol = rng.choice([1, 2, 3, 5, 8])
    types = [rng.choice(['int', 'float', 'bool', 'str', 'str']) for _ in range(ncol)]
    nrows = rng.choice([0, 1, 2, 5]) if not file else rng.choice([1, 50, 3000])
    rows = []
    for _ in range(nrows):
        row = []
        for t in types:
            if t == 'int':
                row.append(rng.choice([0, 1, -1, 42, -7, 2 ** 63 - 1, -2 ** 63, 10 ** 30, rng.randint(-10 ** 6, 10 ** 6)]))
            elif t == 'float':
                row.append(fl(gen_float(rng)))
            elif t == 'bool':
                row.append(rng.random() < 0.5)
            else:
                s = gen_str(rng, sep, esc)
                if file and rng.random() < 0.01:
                    s = s + 'x' * 70000
                row.append(s)
        rows.append(row)
    return {'sep': sep, 'esc': esc, 'types': types, 'rows': rows, 'file': file,
            'encoding': rng.choice([None, 'utf-8']) if file else None}


def cases(tier, rng):
    yield {'sep': ',', 'esc': '\\', 'types': ['str', 'str'], 'rows': [['x\\', 'a,b']], 'file': False, 'encoding': None}
    yield {'sep': ',', 'esc': '\\', 'types': ['float', 'int'], 'rows': [[fl(-1.5), -3], [fl(-0.5), 0], [fl(-0.0), 7]], 'file': False, 'encoding': None}
    yield {'sep': ',', 'esc': '\\', 'types': ['str', 'int'], 'rows': [['a', 1]], 'file': True, 'encoding': None}
    yield {'sep': ';', 'esc': '^', 'types': ['str'], 'rows': [['trail;'], [';'], ['^"'], ['"']], 'file': False, 'encoding': None}
    # files larger than the 64 KiB read chunk whose multi-byte characters straddle every read boundary: the text is shifted
    # byte by byte so that each of the boundaries 65536 and 131072 falls on every byte of a 2-, 3- and 4-byte character
    for shift in range(4):
        yield {'sep': ',', 'esc': '\\', 'types': ['str', 'int'], 'rows': [['x' * shift, 0]] + [['é€😀' * 6, i] for i in range(2300)],
               'file': True, 'encoding': None if shift % 2 else 'utf-8'}
    n = {'quick': 500, 'thorough': 12000, 'search': 600}[tier]
    for _ in range(n):
        yield gen_case(rng, tier)
    for _ in range({'quick': 12, 'thorough': 150, 'search': 10}[tier]):
        yield gen_case(rng, tier, file=True)


def _py_rows(case):
    from collections import namedtuple
    cols = ['c%d' % i for i in range(len(case['types']))]
    Row = namedtuple('Row', cols)
    out = []
    for r in case['rows']:
        vals = []
        for t, v in zip(case['types'], r):
            if t == 'float':
                vals.append(struct.unpack('<d', struct.pack('<Q', int(v['bits'], 16)))[0])
            elif t == 'int':
                vals.append(int(str(v)))
            else:
                vals.append(v)
        out.append(Row(*vals))
    return out, cols


def _enc_item(case, it):
    out = []
    for t, v in zip(case['types'], it):
        if isinstance(v, float):
            out.append(fl(v))
        else:
            out.append(v)
    return out


def real(case):
    rows, cols = _py_rows(case)
    dtype = [(c, TYPES[t]) for c, t in zip(cols, case['types'])]
    parser = rscsv.create_line_parser(dtype=dtype, separator=case['sep'], escapechar=case['esc'])
    if case['file']:
        fd, path = tempfile.mkstemp(prefix='verif-c18-')
        os.close(fd)
        errs, back = [], []
        try:
            rx.from_(rows).pipe(rscsv.dump_to_file(path, separator=case['sep'], escapechar=case['esc'],
                                                    encoding=case['encoding'])).subscribe(on_error=errs.append)
            size = os.path.getsize(path)
            if not errs:
                rscsv.load_from_file(path, parser, encoding=case['encoding']).subscribe(on_next=back.append, on_error=errs.append)
        finally:
            os.unlink(path)
        return {'lines': None, 'back': [_enc_item(case, b) for b in back], 'errors': [type(e).__name__ for e in errs], 'size': size}
    d = drive_plain([rscsv.dump(separator=case['sep'], escapechar=case['esc'])], rows)
    lines = [x for s in d['steps'] for x in s]
    p = drive_plain([parser], [l[:-1] for l in lines])       # line.unframe strips the newline (C15)
    back = [x for s in p['steps'] for x in s]
    return {'lines': lines, 'back': [_enc_item(case, b) for b in back], 'errors': ([p['end']] if p['end'] != 'completed' else []),
            'end': p['end']}


def _mrow(case, r):
    return [({'float': v['float']} if t == 'float' else v) for t, v in zip(case['types'], r)]


def model_cmds(case):
    if case['file'] or not case['rows']:
        return []
    return [{'cmd': 'csv_dump', 'sep': case['sep'], 'esc': case['esc'], 'rows': [_mrow(case, r) for r in case['rows']]}]


def model_result(case, ans):
    import common as C
    if not ans:
        return {'skip': True}
    if 'error' in ans[0]:
        return {'model_error': ans[0]['error']}
    lines = ans[0]['lines']
    a = C.run_driver([{'cmd': 'csv_parse', 'sep': case['sep'], 'esc': case['esc'], 'types': case['types'],
                       'lines': [l[:-1] for l in lines]}])[0]
    return {'lines': lines, 'rows': a.get('rows'), 'err': a.get('error')}


def compare(case, r, m):
    if 'harness_exc' in r:
        return 'harness: ' + r['harness_exc']
    if m.get('skip'):
        return None
    if 'model_error' in m or m.get('err'):
        return 'model: %s' % (m.get('model_error') or m.get('err'))
    cols = ','.join('c%d' % i for i in range(len(case['types'])))
    real_lines = r['lines'][1:] if r['lines'] else []          # first real line is the header
    if real_lines != m['lines']:
        return 'dumped lines: real=%r model=%r' % (real_lines[:3], m['lines'][:3])
    # parsed rows: the model parses its own lines; the real parser parsed the real lines (first = header, consumed)
    mrows = []
    for row in m['rows']:
        if isinstance(row, dict):
            mrows.append(row)
        else:
            mrows.append([({'float': x['float']} if isinstance(x, dict) else x) for x in row])
    rrows = [[({'float': x['float']} if isinstance(x, dict) else x) for x in row] for row in r['back']]
    if any(isinstance(x, dict) and 'exc' in x for x in mrows):
        if not r['errors']:
            return 'parse: model raises on a line, real parsed all'
        return None
    if r['errors']:
        return 'parse: real raised %s, model parsed all' % r['errors']
    # the header line is consumed by the real parser: rows line up one to one
    if rrows != mrows:
        return 'parsed rows: real=%r model=%r' % (rrows[:2], mrows[:2])
    return None


def oracle(case, r):
    if 'harness_exc' in r:
        return 'real code raised: ' + r['harness_exc']
    want = []
    for row in case['rows']:
        want.append([({'float': v['float'], 'bits': v['bits']} if t == 'float' else v) for t, v in zip(case['types'], row)])
    if r['errors']:
        return ('csv %s of %d row(s) (sep=%r, esc=%r, types=%s, first row %r) failed with %s'
                % ('dump_to_file/load_from_file(encoding=%r)' % case['encoding'] if case['file'] else 'dump/load',
                   len(case['rows']), case['sep'], case['esc'], case['types'], case['rows'][:1], r['errors']))
    if r['back'] != want:
        for i, (a, b) in enumerate(zip(r['back'], want)):
            if a != b:
                return ('csv round trip (sep=%r, esc=%r): row %d written as %r came back as %r' % (case['sep'], case['esc'], i, b, a))
        return 'csv round trip: %d rows written, %d read back' % (len(want), len(r['back']))
    return None


def nontrivial(case, r):
    sp = set([case['sep'], case['esc'], '"'])
    return any(isinstance(v, str) and any(x in v for x in sp) for row in case['rows'] for v in row)


def tags(case, r):
    t = ['sep=%r' % case['sep'], 'esc=%r' % case['esc'], 'cols=%d' % len(case['types']), 'file=%s' % case['file'],
         'rows=%s' % ('0' if not case['rows'] else '1-5' if len(case['rows']) <= 5 else '>5')]
    for ty in set(case['types']):
        t.append('type=' + ty)
    if case['file']:
        t.append('encoding=%s' % case['encoding'])
        if isinstance(r, dict) and r.get('size', 0) > 65536:
            t.append('file>64KiB')
    return t


def shrink_candidates(case):
    rows = case['rows']
    for i in range(len(rows)):
        c = dict(case)
        c['rows'] = rows[:i] + rows[i + 1:]
        yield c
    if len(case['types']) > 1 and rows:
        for j in range(len(case['types'])):
            c = dict(case)
            c['types'] = case['types'][:j] + case['types'][j + 1:]
            c['rows'] = [r[:j] + r[j + 1:] for r in rows]
            yield c
    for i, r in enumerate(rows):
        for j, v in enumerate(r):
            if isinstance(v, str) and len(v) > 1:
                for cut_ in (v[1:], v[:-1]):
                    c = dict(case)
                    c['rows'] = rows[:i] + [r[:j] + [cut_] + r[j + 1:]] + rows[i + 1:]
                    yield c


def violation_class(case, text):
    if 'failed with' in text:
        return 'error-' + ('file' if case['file'] else 'mem')
    for ty in ('float', 'str'):
        if "'%s'" % ty in str(case['types']):
            pass
    return 'roundtrip-' + ('file' if case['file'] else 'mem')

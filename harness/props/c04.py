"""C04 — group_by partitions the stream by key, preserving order within each group."""
import muxgen
import muxprop
from props._splitbase import *  # noqa: F401,F403
from props._splitbase import make_oracle, wrap_in
from muxprop import items_of
from catalog import dec, fn1

PROPERTY = 'C04'
ANCHORS = ['rxsci/operators/group_by.py', 'rxsci/state/memory_store.py', 'rxsci/operators/multiplex.py']
RULE = ('group_by with key mappers producing ints, big ints, strings, tuples built fresh at run time, 1..12 distinct keys, 0..60 items, '
        'at top level and nested in group_by / roll / split, random inner pipelines; non-trivial = at least two groups with '
        'interleaved items; distinct by SHA-1 of the case')
ORACLE_DOC = ('on the real boundary traces around every group_by: per parent key one inner lifetime per distinct key value (==), in first-'
              'appearance order, each holding exactly the subsequence of its key, all completed at parent completion in first-appearance '
              'order; group_by(k,[to_list]) at top level emits exactly those lists at completion')
KNOWN_MATCHERS = {}
_site_oracle = make_oracle(('group_by',))

KEYS = [['mod', 2], ['mod', 3], ['mod', 5], ['key_of'], ['str_of'], ['big_of'], ['is_even'], ['const', 7], ['id'], ['floordiv', 4],
        ['none_if_mod', 2, 0], ['none_if_mod', 3, 1], ['const', None]]      # None is a legal group key


def _oracle(case, r):
    v = _site_oracle(case, r)
    if v:
        return v
    # results of groups are emitted while their parent key is live: on every boundary of the pipeline the protocol holds
    # (a group result that leaves group_by after the parent's completion would be an item for a key that is not live)
    if case['kind'] == 'mux' and not r.get('raised') and not muxprop.has_fatal(r['chunks']):
        for lab, tr in sorted((r.get('bounds') or {}).items()):
            if any(e[0] in ('e', 'x') for e in tr):
                continue
            w = muxprop.wf_monitor(tr)
            if w:
                return 'at the boundary %s of %s: %s' % (lab, muxprop.json.dumps(case['term'])[:200], w)
    t = case['term']
    if case['kind'] == 'mux' and len(t) == 1 and t[0][0] == 'group_by' and t[0][2] == [['to_list']] and not r.get('raised') and not muxprop.has_fatal(r['chunks']):
        f = fn1(t[0][1])
        keys, groups = [], []
        for x in case['items']:
            k = f(dec(x))
            for i, kk in enumerate(keys):
                if kk == k:
                    groups[i].append(x)
                    break
            else:
                keys.append(k)
                groups.append([x])
        want = [[] for _ in range(len(case['items']) + 1)] + [[{'i': {'l': g}} for g in groups]]
        if r['chunks'] != want:
            return 'group_by(%s,[to_list]) emitted %s, expected %s' % (t[0][1], str(r['chunks'])[:300], str(want)[:300])
    return None


def _cases(tier, rng):
    yield {'kind': 'mux', 'term': [['group_by', ['mod', 2], [['to_list']]]], 'items': [1, 2, 3, 4, 5]}
    yield {'kind': 'mux', 'term': [['group_by', ['big_of'], [['count', True]]]], 'items': [5, 7, 5, 7, 9]}
    yield {'kind': 'mux', 'term': [['group_by', ['mod', 2], [['group_by', ['mod', 3], [['to_list']]]]]], 'items': list(range(12))}
    yield {'kind': 'mux', 'term': [['group_by', ['key_of'], [['to_list']]]], 'items': []}
    # a group whose key is None, with groups that first appear before and after it, all open when the parent completes
    yield {'kind': 'mux', 'term': [['group_by', ['none_if_mod', 3, 1], [['to_list']]]], 'items': [3, 1, 2, 4, 5, 3]}
    yield {'kind': 'mux', 'term': [['split', ['floordiv', 4], [['group_by', ['none_if_mod', 2, 0], [['count', True]]]]]], 'items': [1, 2, 3, 4, 5, 6, 7]}
    # a stateful operator after group_by inside the same parent: it must see the group results before the parent's completion
    yield {'kind': 'mux', 'term': [['group_by', ['mod', 2], [['to_list']]], ['count', True]], 'items': [1, 2, 3, 4, 5]}
    yield {'kind': 'mux', 'term': [['split', ['floordiv', 3], [['group_by', ['mod', 2], [['to_list']]], ['to_list']]]], 'items': [0, 1, 2, 3, 4, 5, 6]}
    # key values that are different but have equal hashes in CPython (hash(-1) == hash(-2); ints are hashed modulo 2**61-1;
    # 0, 0.0-free: only ints here), alone and inside tuples: one group per distinct key VALUE
    COLL = [-1, -2, 0, 2 ** 61 - 1, 2 ** 61, 1, 2 ** 62 - 2, -(2 ** 61)]
    for kf in (['id'], ['pair_self']):
        for inner in ([['to_list']], [['count', True]]):
            yield {'kind': 'mux', 'term': [['group_by', kf, inner]], 'items': [-1, -2, -1, 0, 2 ** 61 - 1, -2, 1, 2 ** 61, 0]}
    for _ in range({'quick': 40, 'thorough': 300, 'search': 30}[tier]):
        items = [rng.choice(COLL) for _ in range(rng.choice([2, 5, 9, 16]))]
        term = [['group_by', rng.choice([['id'], ['pair_self']]), rng.choice([[['to_list']], [['count', False]], [['last']]])]]
        if rng.random() < 0.4:
            term = wrap_in(rng, term)
        yield {'kind': 'mux', 'term': term, 'items': items}
    # keys that are a fresh NaN for some items and None for others: None and NaN are different keys, every fresh NaN is a key of its own
    for _ in range({'quick': 20, 'thorough': 150, 'search': 12}[tier]):
        inner = rng.choice([[['to_list']], [['count', False]], [['last']]])
        yield {'kind': 'mux', 'term': [['group_by', ['nan_none_mod', 3], inner]], 'items': [rng.randrange(9) for _ in range(rng.choice([3, 5, 9]))],
               'no_model': True}
    # a key mapper with a state of its own (round-robin assignment): it is called once per item, so item j goes to group j % k
    for _ in range({'quick': 30, 'thorough': 200, 'search': 20}[tier]):
        k = rng.choice([2, 3, 5])
        inner = rng.choice([[['to_list']], [['count', False]], [['last']]])
        term = [['group_by', ['round_robin', k], inner]]      # top level only: one mapper object, one parent key
        yield {'kind': 'mux', 'term': term, 'items': [rng.randrange(9) for _ in range(rng.choice([3, 5, 9, 16]))], 'no_model': True}
    n = {'quick': 1500, 'thorough': 10000, 'search': 600}[tier]
    for _ in range(n):
        kf = rng.choice(KEYS)
        g = muxgen.Gen(rng, {'nest': 1, 'time_split': False})
        r = rng.random()
        if r < 0.3:
            inner = [['to_list']]
        elif r < 0.5:
            inner = [['count', False]]
        else:
            inner, _ = g.pipe('int', rng.choice([0, 0, 1]))
        term = [['group_by', kf, inner]]
        if rng.random() < 0.5:
            term = wrap_in(rng, term)
        k = rng.choice([0, 1, 2, 5, 9, 16, 30, 60])
        nk = rng.choice([1, 2, 3, 6, 12])
        items = [rng.randrange(nk * 3) for _ in range(k)]
        yield {'kind': 'mux', 'term': term, 'items': items}


def model_cmds(case):
    return [] if case.get('no_model') else muxprop.model_cmds(case)


def model_result(case, ans):
    return {} if case.get('no_model') else muxprop.model_result(case, ans)


def compare(case, r, m):
    return None if case.get('no_model') else muxprop.compare(case, r, m)


def nontrivial(case, r):
    return len(set(case['items'])) >= 2 and len(case['items']) >= 3


def tags(case, r):
    t = muxprop.tags(case, r)
    for st in muxgen.walk(case['term']):
        if st[0] == 'group_by':
            t.append('keyfn=' + st[1][0])
    return t


def cases(tier, rng):
    """every case of `_cases`, and for a fraction of the mux/plain ones the same case run as the SECOND subscription of
    its pipeline object (after an earlier subscription that completed, failed or was disposed)"""
    pr = rng.sub('resubscription')
    return muxprop.with_preludes(_cases(tier, rng), pr)


def oracle(case, r):
    v = muxprop.prelude_violation(case, r)
    if v or case.get('share'):
        return v        # the shared-operator variant wraps the pipeline in a tee_map: judged against separately built operators only
    return _oracle(case, r)

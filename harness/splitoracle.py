"""Property-level oracles for the splitting operators, judged on the REAL boundary traces alone:
group_by (C04), roll (C05), split (C06), time_split (C07)."""
import json

from catalog import dec, fn1
from muxprop import lifetimes, stage_inputs, WIDTH, wf_monitor


def root_trace(items):
    return [['c', [0]]] + [['n', [0], x] for x in items] + [['d', [0]]]


def splitter_sites(term, names):
    """(stage, input label, inner-head label) for every splitter of the given names"""
    out = []

    def rec(t, path, inp):
        idx = 0
        prev = inp
        for st in t:
            w = WIDTH.get(st[0], 1)
            here = '%s/%d' % (path, idx)
            n = st[0]
            if n in ('group_by', 'split', 'time_split', 'roll'):
                if n in names:
                    out.append((st, prev, here + '/in'))
                rec(st[3] if n == 'roll' else st[2], here, here + '/in')
            elif n == 'tee':
                for b, bp in enumerate(st[2]):
                    rec(bp, '%s/b%d' % (here, b), prev)
            prev = '%s/%d' % (path, idx + w - 1)
            idx += w
    rec(term, '', None)
    return out


def expected_windows(st, xs):
    """list of expected inner lifetimes (item lists, JSON-encoded items) in OPENING order, for one parent lifetime"""
    n = st[0]
    if n == 'roll':
        w, s = st[1], st[2]
        return [xs[j * s:j * s + w] for j in range((len(xs) + s - 1) // s)]
    if n == 'split':
        f = fn1(st[1])
        runs = []
        prev = None
        for x in xs:
            p = f(dec(x))
            if runs and not (p != prev):
                runs[-1].append(x)
            else:
                runs.append([x])
            prev = p
        return runs
    if n == 'group_by':
        f = fn1(st[1])
        keys = []
        groups = []
        for x in xs:
            k = f(dec(x))
            for i, kk in enumerate(keys):
                if kk == k:
                    groups[i].append(x)
                    break
            else:
                keys.append(k)
                groups.append([x])
        return groups
    if n == 'time_split':
        return ts_expected(st[1], xs)
    raise ValueError(n)


def ts_expected(cfg, xs):
    """C07 stated declaratively: reference timestamp = first item of the window or the closing item that
    preceded it; an item opens a new window iff expired(ref, last, t); otherwise a closing item closes
    the current window (inclusive or exclusive)."""
    tm = fn1(cfg['time'])
    closing = fn1(cfg['closing']) if cfg.get('closing') is not None else None
    a, b = cfg.get('active'), cfg.get('inactive')
    incl = cfg.get('include', True)
    wins = []
    ref = last = None
    for x in xs:
        v = dec(x)
        t = tm(v)
        if ref is None:
            wins.append([])
            ref = last = t
        expired = (a is not None and t >= ref + a) or (b is not None and t >= last + b)
        if expired:
            wins.append([x])
            ref = last = t
        elif closing is not None and closing(v) is True:
            if incl:
                wins[-1].append(x)
                wins.append([])
            else:
                wins.append([x])
            ref = last = t
        else:
            wins[-1].append(x)
            last = t
    return wins


def ts_windows_pos(cfg, xs):
    """sessions as (start index, end index, index of the item whose chunk closes the session or None)"""
    tm = fn1(cfg['time'])
    closing = fn1(cfg['closing']) if cfg.get('closing') is not None else None
    a, b = cfg.get('active'), cfg.get('inactive')
    incl = cfg.get('include', True)
    wins = []          # [start, end, close_at]
    ref = last = None
    for i, x in enumerate(xs):
        v = dec(x)
        t = tm(v)
        if ref is None:
            wins.append([i, i, None])
            ref = last = t
        expired = (a is not None and t >= ref + a) or (b is not None and t >= last + b)
        if expired:
            wins[-1][2] = i
            wins.append([i, i + 1, None])
            ref = last = t
        elif closing is not None and closing(v) is True:
            if incl:
                wins[-1][1] = i + 1
                wins[-1][2] = i
                wins.append([i + 1, i + 1, None])
            else:
                wins[-1][2] = i
                wins.append([i, i + 1, None])
            ref = last = t
        else:
            wins[-1][1] = i + 1
            last = t
    return wins


def check_sites(term, items, bounds, names, check_close_order=True):
    """returns None or a description of the first violation found on the real boundary traces"""
    for st, inp, inner in splitter_sites(term, names):
        tr_in = root_trace(items) if inp is None else bounds.get(inp)
        tr_inner = bounds.get(inner)
        if tr_in is None or tr_inner is None:
            continue
        if any(e[0] in ('e', 'x') for e in tr_in):
            continue
        parents = lifetimes(tr_in)
        if not all(p['closed'] for p in parents):
            continue
        w = wf_monitor(tr_inner)
        if w:
            return '%s: inner lifetimes are not kept apart: %s' % (st[0], w)
        inners = lifetimes(tr_inner)
        by_parent = {}
        for lt in inners:
            by_parent.setdefault(tuple(lt['key'][1:]), []).append(lt)
        want_by = {}
        for p in parents:
            want_by.setdefault(tuple(p['key']), []).extend(expected_windows(st, p['items']))
        for pk in set(list(by_parent) + list(want_by)):
            have = by_parent.get(pk, [])
            want = want_by.get(pk, [])
            got = [h['items'] for h in have]
            if st[0] == 'time_split':
                # empty sessions are a representational detail, not part of the statement
                got = [g for g in got if g]
                want = [w for w in want if w]
            if got != want:
                return ('%s%s: parent key %s: inner lifetimes %s, expected %s'
                        % (st[0], json.dumps(st[1:-1])[:80], list(pk), json.dumps(got)[:400], json.dumps(want)[:400]))
            for h in have:
                if not h['closed']:
                    return '%s: inner lifetime %s of parent %s never completed' % (st[0], h['key'], list(pk))
            if check_close_order:
                closes = [h['close_pos'] for h in have]
                if closes != sorted(closes):
                    return ('%s%s: inner lifetimes of parent %s closed out of opening order (close positions %s, items %s)'
                            % (st[0], json.dumps(st[1:-1])[:40], list(pk), closes, json.dumps(got)[:200]))
    return None

"""Shared machinery of the rxsci verification checks (see /verif/DESIGN.md §4, §5).

Steps of one check run (main.py drives them):
  build -> static audit -> axioms/statement audit -> correspondence (real vs Lean model)
  + property oracle on the real code -> known-findings filter -> evidence -> exit code.
"""
import hashlib
import json
import os
import random
import re
import subprocess
import sys
import time

ROOT = os.path.dirname(os.path.dirname(os.path.abspath(__file__)))
LEAN = os.path.join(ROOT, 'lean')
DRIVER = os.path.join(LEAN, '.lake', 'build', 'bin', 'rxdriver')
# VERIF_OUT redirects everything a run writes (used only by tools_seeded_meta.py, which runs the checks against scratch
# copies of /repo with a seeded change applied; the registered commands never set it)
OUT = os.environ.get('VERIF_OUT') or os.path.join(ROOT, 'out')
REPLAYS = os.path.join(OUT, 'replays')
EVIDENCE = os.path.join(OUT, 'evidence') if os.environ.get('VERIF_OUT') else os.path.join(ROOT, 'evidence')
REPO = os.environ.get('RXSCI_SRC', '/repo')
NPROC = int(os.environ.get('VERIF_JOBS', '16'))

STD_AXIOMS = {'propext', 'Classical.choice', 'Quot.sound'}
FORBIDDEN = re.compile(
    r'\bsorry\b|\badmit\b|^\s*axiom\s|\bnative_decide\b|\bbv_decide\b|implemented_by|\bunsafe\s|maxHeartbeats\s+0\b|\bextern\b',
    re.M)


def ensure_repo_on_path():
    """rxsci must be imported from the configured source root (default /repo)."""
    if REPO not in sys.path:
        sys.path.insert(0, REPO)
    import rxsci
    f = os.path.realpath(rxsci.__file__)
    if not f.startswith(os.path.realpath(REPO) + os.sep):
        raise RuntimeError('rxsci imported from %s, not from %s' % (f, REPO))
    return rxsci


def sha_files(files):
    out = {}
    for f in files:
        p = os.path.join(REPO, f)
        try:
            out[f] = hashlib.sha256(open(p, 'rb').read()).hexdigest()[:16]
        except OSError:
            out[f] = 'missing'
    return out


# ---------------------------------------------------------------------------------------------
# Lean side
# ---------------------------------------------------------------------------------------------

def lake_build():
    """(ok, seconds, log-tail).  Builds model, proofs and the compiled driver from /verif/lean."""
    t = time.time()
    p = subprocess.run(['lake', 'build', 'RxModel', 'Driver', 'rxdriver'], cwd=LEAN,
                       stdout=subprocess.PIPE, stderr=subprocess.STDOUT, text=True)
    ok = p.returncode == 0 and os.path.exists(DRIVER)
    errs = [l for l in p.stdout.splitlines() if 'error' in l.lower()]
    return ok, time.time() - t, ('\n'.join(errs[:20]) if not ok else '')


def strip_comments(src):
    """remove /- ... -/ (nested) and -- comments and string literals"""
    out = []
    i, n, depth = 0, len(src), 0
    while i < n:
        if src.startswith('/-', i):
            depth += 1
            i += 2
        elif depth > 0 and src.startswith('-/', i):
            depth -= 1
            i += 2
        elif depth > 0:
            if src[i] == '\n':
                out.append('\n')
            i += 1
        elif src.startswith('--', i):
            while i < n and src[i] != '\n':
                i += 1
        elif src[i] == '"':
            i += 1
            while i < n and src[i] != '"':
                i += 2 if src[i] == '\\' else 1
            i += 1
            out.append('""')
        else:
            out.append(src[i])
            i += 1
    return ''.join(out)


def static_audit():
    """forbidden tokens outside comments in every Lean file of the project"""
    hits = []
    for base in ('RxModel', 'Driver'):
        for dp, _, fs in os.walk(os.path.join(LEAN, base)):
            for f in fs:
                if f.endswith('.lean'):
                    p = os.path.join(dp, f)
                    code = strip_comments(open(p).read())
                    for m in FORBIDDEN.finditer(code):
                        line = code.count('\n', 0, m.start()) + 1
                        hits.append('%s:%d:%s' % (os.path.relpath(p, LEAN), line, m.group(0).strip()))
    for f in ('RxModel.lean', 'Driver.lean'):
        p = os.path.join(LEAN, f)
        if os.path.exists(p):
            code = strip_comments(open(p).read())
            for m in FORBIDDEN.finditer(code):
                hits.append('%s:%s' % (f, m.group(0).strip()))
    return hits


def load_theorems():
    return json.load(open(os.path.join(ROOT, 'theorems.json')))


def norm_stmt(s):
    return re.sub(r'\s+', ' ', s).strip()


def axioms_audit(prop, lean_path=None):
    """For every theorem registered for `prop` in theorems.json: it must exist, depend only on the
    three standard axioms, and its pretty-printed statement must equal the committed text.
    Returns (obligations, discharged, details list, raw)"""
    reg = load_theorems().get(prop, {})
    thms = reg.get('theorems', [])
    mods = reg.get('modules', [])
    os.makedirs(os.path.join(OUT, 'audit'), exist_ok=True)
    path = os.path.join(OUT, 'audit', prop + '.lean')
    with open(path, 'w') as f:
        for m in mods:
            f.write('import %s\n' % m)
        f.write('set_option format.width 200\n')
        for t in thms:
            f.write('#print "@@THM %s"\n' % t['name'])
            f.write('#check @%s\n' % t['name'])
            f.write('#print axioms %s\n' % t['name'])
    if lean_path:
        # link theorems re-checked against kernels freshly generated from a changed source: audit those
        env = dict(os.environ)
        env['LEAN_PATH'] = lean_path
        p = subprocess.run(['lean', path], cwd=LEAN, env=env, stdout=subprocess.PIPE, stderr=subprocess.STDOUT, text=True)
    else:
        p = subprocess.run(['lake', 'env', 'lean', path], cwd=LEAN, stdout=subprocess.PIPE,
                           stderr=subprocess.STDOUT, text=True)
    raw = p.stdout
    seen = {}
    for b in raw.split('@@THM ')[1:]:
        name, _, rest = b.partition('\n')
        seen[name.strip()] = rest
    details = []
    discharged = 0
    for t in thms:
        name = t['name']
        rest = seen.get(name)
        d = {'name': name, 'ok': False}
        if rest is None:
            d['why'] = 'missing (audit file did not elaborate: %s)' % raw[:200]
        elif re.search(r': error[:(]', rest):
            d['why'] = 'missing or does not compile: ' + norm_stmt(rest)[:200]
        else:
            marker = "'%s'" % name
            stmt_txt, _, ax_txt = rest.partition(marker)
            m = re.search(r"depends on axioms:\s*\[([^\]]*)\]", ax_txt, re.S)
            if m:
                axs = {a.strip() for a in m.group(1).replace('\n', ' ').split(',') if a.strip()}
            elif 'does not depend on any axioms' in ax_txt:
                axs = set()
            else:
                axs = None
            mm = re.match(r"\s*@?[\w.']+\s*:\s*(.*)", stmt_txt, re.S)
            stmt = norm_stmt(mm.group(1)) if mm else norm_stmt(stmt_txt)
            d['axioms'] = sorted(axs) if axs is not None else None
            d['statement'] = stmt
            if axs is None:
                d['why'] = 'no axioms report'
            elif not axs <= STD_AXIOMS:
                d['why'] = 'non-standard axioms: %s' % sorted(axs - STD_AXIOMS)
            elif norm_stmt(t.get('statement', '')) != stmt:
                d['why'] = 'statement differs from theorems.json'
            else:
                d['ok'] = True
                discharged += 1
        details.append(d)
    return len(thms), discharged, details, raw


# ---------------------------------------------------------------------------------------------
# generated model (second tie: harness/pygen.py translates the pure kernels of the current source)
# ---------------------------------------------------------------------------------------------

GEN_DIR = os.path.join(LEAN, 'RxGen')


def _lean_path():
    p = subprocess.run(['lake', 'env', 'printenv', 'LEAN_PATH'], cwd=LEAN, stdout=subprocess.PIPE, stderr=subprocess.DEVNULL, text=True)
    return p.stdout.strip()


def gen_audit(prop):
    """Regenerate RxGen/Kernels.lean, RxGen/Handlers.lean, RxGen/Store.lean, RxGen/Text.lean and RxGen/Codec.lean from the CURRENT source (REPO).  When the texts equal the
    committed copies, the link theorems built by `lake build` are about the current source.  Otherwise the fresh texts and the
    property's link modules are compiled out of tree (nothing under lean/ is touched, so concurrent runs against other source
    trees do not interfere) and the link theorems must still check against the fresh definitions.
    Returns (ok, info, lean_path_for_audit or None)."""
    reg = load_theorems().get(prop, {})
    mods = reg.get('gen_modules', [])
    info = {'modules': mods}
    if not mods:
        return True, None, None
    import pygen
    texts = {}
    errs = {}
    try:
        for name, fn in (('Kernels', pygen.generate), ('Handlers', pygen.generate_handlers), ('Store', pygen.generate_store), ('Text', pygen.generate_text), ('Codec', pygen.generate_codec)):
            texts[name], e = fn(REPO)
            errs.update(e)
    except Exception as e:       # noqa
        return False, {'modules': mods, 'error': 'translator failed: %r' % (e,)}, None
    info['untranslatable'] = errs
    info['definitions'] = len(pygen.KERNELS) + len(pygen.STAGES) + len(pygen.HANDLERS) + len(pygen.OBS) + len(pygen.STORE_METHODS) + 4 + 3 + 2 + 1 + 8 - len(errs)
    info['generated_sha'] = {k: hashlib.sha256(v.encode()).hexdigest()[:16] for k, v in texts.items()}
    same = True
    for name, text in texts.items():
        try:
            same = same and open(os.path.join(GEN_DIR, name + '.lean')).read() == text
        except OSError:
            same = False
    info['same_as_committed'] = same
    if same:
        return True, info, None
    t = time.time()
    d = os.path.join(OUT, 'gen', prop)
    subprocess.run(['rm', '-rf', d])
    os.makedirs(os.path.join(d, 'RxGen'))
    env = dict(os.environ)
    env['LEAN_PATH'] = d + os.pathsep + _lean_path()
    log = []
    ok = True

    def compile2(path, modname):
        # only RxGen/ may exist under d (d is first on the search path: a directory d/RxModel would hide the built model);
        # link modules do not import one another, their object files are not needed afterwards
        out = (os.path.join(d, *modname.split('.')) if modname.startswith('RxGen.') else os.path.join(d, '_out', modname)) + '.olean'
        os.makedirs(os.path.dirname(out), exist_ok=True)
        root = d if path.startswith(d + os.sep) else LEAN
        p = subprocess.run(['lean', '--root=' + root, '-o', out, path], cwd=LEAN, env=env, stdout=subprocess.PIPE,
                           stderr=subprocess.STDOUT, text=True)
        errs_ = [l for l in p.stdout.splitlines() if 'error' in l] or p.stdout.splitlines()[:3]
        return p.returncode == 0, errs_[:6]
    for name, text in texts.items():
        src = os.path.join(d, 'RxGen', name + '.lean')
        open(src, 'w').write(text)
        o, e = compile2(src, 'RxGen.' + name)
        if not o:
            ok = False
            log.append('generated %s does not compile: %s' % (name, '; '.join(e)))
    if ok:
        for m in mods:
            o, e = compile2(os.path.join(LEAN, *m.split('.')) + '.lean', m)
            if not o:
                ok = False
                log.append('%s no longer checks against the definitions generated from the current source: %s' % (m, '; '.join(e)))
                break
    info['recheck_s'] = round(time.time() - t, 1)
    info['recheck_log'] = log
    return ok, info, (env['LEAN_PATH'] if ok else None)


def run_driver(cmds):
    """one-shot: send JSON commands, get JSON answers (same order)"""
    if not cmds:
        return []
    inp = '\n'.join(c if isinstance(c, str) else json.dumps(c, separators=(',', ':')) for c in cmds) + '\n'
    p = subprocess.run([DRIVER], input=inp, stdout=subprocess.PIPE, stderr=subprocess.PIPE, text=True)
    lines = p.stdout.split('\n')
    if lines and lines[-1] == '':
        lines.pop()
    if len(lines) != len(cmds):
        raise RuntimeError('driver answered %d lines for %d commands (rc=%s): %s'
                           % (len(lines), len(cmds), p.returncode, p.stderr[:500]))
    return [json.loads(l) for l in lines]


# ---------------------------------------------------------------------------------------------
# misc
# ---------------------------------------------------------------------------------------------

def canon(x):
    return json.dumps(x, sort_keys=True, separators=(',', ':'), default=str)


def case_hash(case):
    return hashlib.sha1(canon(case).encode()).hexdigest()


class Rng(random.Random):
    """every random choice of a run derives from VERIF_SEED through this class"""
    def sub(self, label):
        return Rng(hashlib.sha256(('%s/%s' % (self.getrandbits(64), label)).encode()).hexdigest())


def rng_for(prop, tier, seed, shard=0):
    return Rng('%s/%s/%s/%s' % (prop, tier, seed, shard))


def write_replay(prop, payload):
    os.makedirs(REPLAYS, exist_ok=True)
    h = hashlib.sha1(canon(payload).encode()).hexdigest()[:12]
    path = os.path.join(REPLAYS, '%s-%s.json' % (prop, h))
    with open(path, 'w') as f:
        json.dump(payload, f, indent=1, sort_keys=True, default=str)
    return path


def load_known():
    p = os.path.join(ROOT, 'known_findings.json')
    if not os.path.exists(p):
        return {'findings': [], 'fixed': []}
    return json.load(open(p))


def write_evidence(prop, ev):
    os.makedirs(EVIDENCE, exist_ok=True)
    tmp = os.path.join(EVIDENCE, prop + '.json.tmp')
    with open(tmp, 'w') as f:
        json.dump(ev, f, indent=1, sort_keys=True, default=str)
    os.replace(tmp, os.path.join(EVIDENCE, prop + '.json'))


def leanchecker(modules):
    """thorough tier: independent re-check of the compiled .olean files of the property's modules"""
    if not modules:
        return None
    t = time.time()
    p = subprocess.run(['lake', 'env', 'leanchecker'] + list(modules), cwd=LEAN,
                       stdout=subprocess.PIPE, stderr=subprocess.STDOUT, text=True)
    return {'ok': p.returncode == 0, 's': round(time.time() - t, 1), 'log': p.stdout[-400:],
            'modules': list(modules)}

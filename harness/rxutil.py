"""Driving real rxsci / RxPY operators one source event at a time and recording what comes out when."""
import rx
from rx.subject import Subject


def drive_plain(ops, chunks, complete=True, error=None, twin=None, twin_mode='before', carrier=None):
    """Push `chunks` one by one through the operator list `ops` (plain observables).
    Returns {'steps': [[outputs emitted while chunk i was pushed]...], 'fin': [outputs at completion],
             'end': 'completed' | 'error:<Type>' | 'open', 'sub': [outputs at subscription]}
    With `twin` (a list of chunks), the SAME operator objects are applied to a second source whose subscription is
    live at the same time (subscribed before the judged one, or after its first chunk with twin_mode='mid'); the
    twin's chunks are pushed alternately with the judged ones and its outputs are discarded.
    `carrier` (bytes chunks only): 'bytearray' hands every chunk over as a bytearray that the producer wipes as soon as
    on_next returns; 'memoryview' as a view of ONE buffer that the producer refills for the next chunk (readinto style).
    An operator may not keep a reference to a chunk it was given; outputs are snapshotted when they are emitted."""
    src = Subject()
    cur = []
    state = {'end': 'open'}
    src2 = Subject() if twin is not None else None
    tw = list(twin or [])

    def sub_twin():
        src2.pipe(*ops).subscribe(on_next=lambda x: None, on_error=lambda e: None, on_completed=lambda: None)

    def push_twin():
        if tw:
            try:
                src2.on_next(tw.pop(0))
            except Exception:
                pass
    if twin is not None and twin_mode == 'before':
        sub_twin()
        push_twin()

    def on_next(x):
        cur.append(bytes(x) if carrier else x)
    reuse = bytearray(max([len(c) for c in chunks] + [1])) if carrier == 'memoryview' else None

    def on_error(e):
        state['end'] = 'error:' + type(e).__name__

    def on_completed():
        state['end'] = 'completed'

    src.pipe(*ops).subscribe(on_next=on_next, on_error=on_error, on_completed=on_completed)
    sub = list(cur)
    del cur[:]
    steps = []
    for k, c in enumerate(chunks):
        if twin is not None:
            if k == 1 and twin_mode == 'mid':
                sub_twin()
            if twin_mode == 'before' or k >= 1:
                push_twin()
        try:
            if carrier == 'bytearray':
                ba = bytearray(c)
                src.on_next(ba)
                ba[:] = b'\xee' * len(ba)
            elif carrier == 'memoryview':
                reuse[:len(c)] = c
                mv = memoryview(reuse)[:len(c)]
                src.on_next(mv)
                reuse[:] = b'\xee' * len(reuse)
            else:
                src.on_next(c)
        except Exception as e:      # exception escaping through the source's on_next
            state['end'] = 'raised:' + type(e).__name__
            steps.append(list(cur))
            del cur[:]
            break
        steps.append(list(cur))
        del cur[:]
    fin = []
    if complete and state['end'] == 'open':
        if error is not None:
            src.on_error(error)
        else:
            src.on_completed()
        fin = list(cur)
    if twin is not None and (twin_mode == 'before' or len(chunks) > 1):
        while tw:
            push_twin()
        try:
            src2.on_completed()
        except Exception:
            pass
    return {'sub': sub, 'steps': steps, 'fin': fin, 'end': state['end']}


def cut(seq, positions):
    """cut a str/bytes/list at the sorted positions (duplicates give empty chunks)"""
    out = []
    prev = 0
    for p in positions:
        out.append(seq[prev:p])
        prev = p
    out.append(seq[prev:])
    return out

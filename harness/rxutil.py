"""Driving real rxsci / RxPY operators one source event at a time and recording what comes out when."""
import rx
from rx.subject import Subject


def drive_plain(ops, chunks, complete=True, error=None):
    """Push `chunks` one by one through the operator list `ops` (plain observables).
    Returns {'steps': [[outputs emitted while chunk i was pushed]...], 'fin': [outputs at completion],
             'end': 'completed' | 'error:<Type>' | 'open', 'sub': [outputs at subscription]}"""
    src = Subject()
    cur = []
    state = {'end': 'open'}

    def on_next(x):
        cur.append(x)

    def on_error(e):
        state['end'] = 'error:' + type(e).__name__

    def on_completed():
        state['end'] = 'completed'

    src.pipe(*ops).subscribe(on_next=on_next, on_error=on_error, on_completed=on_completed)
    sub = list(cur)
    del cur[:]
    steps = []
    for c in chunks:
        try:
            src.on_next(c)
        except Exception as e:      # exception escaping through the source's on_next
            state['end'] = 'raised:' + type(e).__name__
            steps.append(list(cur))
            del cur[:]
            break
        steps.append(list(cur))
        del cur[:]
    fin = []
    if complete and state['end'] == 'open':
        if error is not None:
            src.on_error(error)
        else:
            src.on_completed()
        fin = list(cur)
    return {'sub': sub, 'steps': steps, 'fin': fin, 'end': state['end']}


def cut(seq, positions):
    """cut a str/bytes/list at the sorted positions (duplicates give empty chunks)"""
    out = []
    prev = 0
    for p in positions:
        out.append(seq[prev:p])
        prev = p
    out.append(seq[prev:])
    return out

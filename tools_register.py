#!/usr/bin/env python3
"""development helper: register every `theorem Cxx_*` of lean/RxModel/Props/Cxx.lean (plus extra modules given)
in theorems.json and pin its pretty-printed statement:  tools_register.py C09 [extra props file stems...]
Stems starting with `Link` are link modules (Props/Link*.lean: theorems about the kernels generated from the source by
harness/pygen.py): their `Link_*` / `Exact_*` theorems are registered too and the modules are listed under gen_modules
(re-checked against freshly generated kernels whenever the generated text differs from the committed RxGen/Kernels.lean)."""
import json, re, subprocess, sys, os
ROOT = os.path.dirname(os.path.abspath(__file__))
prop = sys.argv[1]
stems = [prop] + sys.argv[2:]
names = []
mods = []
for st in stems:
    src = open(os.path.join(ROOT, 'lean/RxModel/Props/%s.lean' % st)).read()
    mods.append('RxModel.Props.%s' % st)
    if st == prop:
        names += re.findall(r'^theorem\s+(C\d+_\w+)', src, re.M)
    if st.startswith('Link'):
        names += re.findall(r'^theorem\s+((?:Link|LinkH|LinkP|LinkS|LinkT|LinkB|LinkZ|LinkR|Exact)_\w+)', src, re.M)
        only = os.environ.get('LINK_ONLY')      # e.g. LINK_ONLY=LinkH_scan,LinkH_first to register a subset of shared link modules
        if only is not None:
            names = [n for n in names if not re.match(r'(Link|LinkH|LinkP|LinkS|LinkT|LinkB|LinkZ|LinkR|Exact)_', n) or n in only.split(',')]
reg = json.load(open(os.path.join(ROOT, 'theorems.json')))
reg[prop] = {'modules': mods, 'theorems': [{'name': 'Rx.' + n} for n in names]}
gen = ['RxModel.Props.%s' % st for st in stems if st.startswith('Link')]
if gen:
    reg[prop]['gen_modules'] = gen
json.dump(reg, open(os.path.join(ROOT, 'theorems.json'), 'w'), indent=1)
sys.exit(subprocess.call([os.path.join(ROOT, 'check'), '--pin', prop]))

#!/bin/bash
# usage: tools_import_wave.sh <outdir> <Cxx...>  copies <outdir>/<Cxx>/{1,2}/ (patch.diff demo.py notes.txt) of a sub-agent wave
# to seeded/<Cxx>-7 and seeded/<Cxx>-8 (fourth wave) and verifies them with tools_seeded_meta.py
out=$1; shift; off=${WAVE_OFFSET:-6}
ids=""
for p in "$@"; do
  for k in 1 2; do
    src=$out/$p/$k
    [ -f $src/patch.diff ] || continue
    n=$((k+off))
    d=/verif/seeded/$p-$n
    mkdir -p $d
    cp $src/patch.diff $src/demo.py $d/
    [ -f $src/notes.txt ] && cp $src/notes.txt $d/
    ids="$ids $p-$n"
  done
done
cd /verif && /venv/bin/python tools_seeded_meta.py $ids

#!/usr/bin/env python3
"""Verify every seeded change and write seeded/<id>/meta.json.

For each seeded/<id>/ (patch.diff, demo.py, notes.txt):
  1. scratch copy of /repo's HEAD under /tmp (removed afterwards)
  2. demo.py on the clean copy must exit 0
  3. patch applies; the pinned test suite passes with it
  4. demo.py on the patched copy must exit non-zero
  5. ./check <prop> quick against the patched copy (RXSCI_SRC, VERIF_OUT redirect) must exit 1 with a VIOLATION line
The same patches were also applied to /repo itself (git -C /repo apply; ./check; git -C /repo apply -R) with
tools_seeded.sh; this tool exists to re-verify all of them in parallel without touching /repo."""
import json
import os
import re
import shutil
import subprocess
import sys
from concurrent.futures import ThreadPoolExecutor

ROOT = os.path.dirname(os.path.abspath(__file__))
SEEDED = os.path.join(ROOT, 'seeded')
SCRATCH = '/tmp/seedmeta'
PY = '/venv/bin/python'


def sh(cmd, cwd=None, env=None, timeout=1500):
    e = dict(os.environ)
    e.update(env or {})
    p = subprocess.run(cmd, shell=True, cwd=cwd, env=e, stdout=subprocess.PIPE, stderr=subprocess.STDOUT, text=True, timeout=timeout)
    return p.returncode, p.stdout


def one(sid):
    d = os.path.join(SEEDED, sid)
    prop = sid.split('-')[0]
    sc = os.path.join(SCRATCH, sid)
    shutil.rmtree(sc, ignore_errors=True)
    os.makedirs(sc)
    repo = os.path.join(sc, 'repo')
    meta = {'id': sid, 'breaks_property': prop}
    try:
        sh('git clone -q /repo %s' % repo)
        head = sh('git -C %s rev-parse --short HEAD' % repo)[1].strip()
        meta['base_commit'] = head
        env = {'PYTHONPATH': repo}
        rc0, out0 = sh('%s -B %s' % (PY, os.path.join(d, 'demo.py')), cwd=sc, env=env, timeout=600)
        meta['demo_clean_exit'] = rc0
        rc, out = sh('git -C %s apply %s' % (repo, os.path.join(d, 'patch.diff')))
        meta['patch_applies'] = rc == 0
        if rc != 0:
            meta['error'] = out[-300:]
            return meta
        rct, outt = sh('%s -m pytest -q -p no:cacheprovider --timeout=900 --continue-on-collection-errors 2>&1 | tail -1' % PY, cwd=repo, timeout=1200)
        meta['tests_with_patch'] = outt.strip().splitlines()[-1] if outt.strip() else ''
        rc1, out1 = sh('%s -B %s' % (PY, os.path.join(d, 'demo.py')), cwd=sc, env=env, timeout=600)
        meta['demo_patched_exit'] = rc1
        meta['demo_patched_tail'] = out1.strip().splitlines()[-3:]
        outdir = os.path.join(sc, 'out')
        rcc, outc = sh('./check %s quick' % prop, cwd=ROOT, env={'RXSCI_SRC': repo, 'VERIF_OUT': outdir, 'VERIF_JOBS': '4'}, timeout=1500)
        meta['check_exit'] = rcc
        vl = [l for l in outc.splitlines() if l.startswith('VIOLATION')]
        meta['check_violation_lines'] = [re.sub(r'replay=\S+', 'replay=<scratch>', l) for l in vl]
        meta['check_summary'] = outc.strip().splitlines()[-1] if outc.strip() else ''
        meta['concrete_failing_input'] = bool(vl) and not any('no-failing-input-found' in l for l in vl)
        m = re.search(r'replay=(\S+)', vl[0]) if vl else None
        if m and os.path.exists(m.group(1)):
            rep = json.load(open(m.group(1)))
            meta['check_observed'] = str(rep.get('observed') or rep.get('broken') or '')[:500]
        notes = open(os.path.join(d, 'notes.txt')).read() if os.path.exists(os.path.join(d, 'notes.txt')) else ''
        mc = re.search(r'Condition:(.*?)(?:\nTest suite|\Z)', notes, re.S)
        meta['needs_to_manifest'] = ' '.join(mc.group(1).split()) if mc else ''
        if not meta['needs_to_manifest']:
            # free-form notes: take the paragraph(s) that follow the first line mentioning "manifest"
            ls = notes.splitlines()
            idx = [i for i, l in enumerate(ls) if 'manifest' in l.lower()]
            if idx:
                meta['needs_to_manifest'] = ' '.join(' '.join(ls[idx[0]:idx[0] + 14]).split())[:900]
        mch = re.search(r'Change[^:]*:(.*?)(?:\nWhy|\Z)', notes, re.S)
        meta['change'] = ' '.join(mch.group(1).split())[:600] if mch else ''
        if not meta['change']:
            meta['change'] = ' '.join(notes.split())[:500]
        meta['what_was_run'] = [
            'git clone /repo <scratch>; demo.py on the clean copy (exit %s)' % rc0,
            'git apply patch.diff; pinned pytest command (%s)' % meta['tests_with_patch'],
            'demo.py on the patched copy (exit %s)' % rc1,
            'RXSCI_SRC=<scratch> ./check %s quick (exit %s)' % (prop, rcc),
            'earlier, on /repo itself: git -C /repo apply patch.diff; ./check %s quick; git -C /repo apply -R patch.diff (tools_seeded.sh)' % prop,
        ]
        meta['confirmed'] = (rc0 == 0 and rc1 != 0 and 'passed' in meta['tests_with_patch'] and 'failed' not in meta['tests_with_patch'])
        meta['caught'] = rcc == 1 and bool(vl)
    except Exception as e:      # noqa
        meta['error'] = repr(e)
    finally:
        shutil.rmtree(sc, ignore_errors=True)
    return meta


def main():
    ids = sys.argv[1:] or sorted(os.listdir(SEEDED))
    ids = [i for i in ids if os.path.isdir(os.path.join(SEEDED, i))]
    with ThreadPoolExecutor(4) as ex:
        for meta in ex.map(one, ids):
            json.dump(meta, open(os.path.join(SEEDED, meta['id'], 'meta.json'), 'w'), indent=1)
            print(meta['id'], 'confirmed' if meta.get('confirmed') else 'NOT-CONFIRMED', 'caught' if meta.get('caught') else 'MISSED',
                  'concrete' if meta.get('concrete_failing_input') else 'no-input', meta.get('error', ''), flush=True)
    shutil.rmtree(SCRATCH, ignore_errors=True)


if __name__ == '__main__':
    main()

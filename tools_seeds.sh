#!/bin/bash
# usage: tools_seeds.sh <tier> <seed...>   runs every property's check with the given seeds on the clean tree (scratch outputs)
tier=$1; shift
for s in "$@"; do
  for i in $(seq -w 1 20); do
    out=$(cd /verif && VERIF_SEED=$s VERIF_OUT=/tmp/vseeds timeout 3000 ./check C$i $tier 2>&1 | tail -3)
    echo "seed=$s $(echo "$out" | tail -1)"
    echo "$out" | grep VIOLATION
  done
done
rm -rf /tmp/vseeds
